"""Reference replica of the room / user views (property C19, DESIGN.md appendix B.5).

Written from the property wording only: *join adds, leave removes, grant adds, revoke
removes, lists replace, room list reconciles; privileges = last of list / add / status
notification*.  It works on neutral notification dicts (``{'kind': ..., ...}``), never on
aioslsk objects, and it is deliberately loose wherever the wording does not decide:

* a room is a *set of admissible states* (``alts``); a notification maps every admissible
  state to one or more successors; an observation keeps the admissible states that equal
  the observed view (or, if none does, reports the differing fields against the closest
  one and adopts the observation, so one divergence is reported once, at the notification
  that introduced it);
* after a membership revoke the operator flag of that user may be cleared or kept;
* a room omitted by a room list may vanish (default view), keep its previous state, or
  keep it with the own ownership/membership/operator flags reconciled;
* our own join may add the announced users to the list or replace the list by them; when
  the join carries no operator list, a previous operator set may be cleared or kept;
* re-adding a ticker of a user that already has one may keep its position or move it last;
* the privacy flag is decided only by a room list (``private = name not in the public
  list``) and by our own join (``private = an owner was announced``); a private-room
  notification for a room not known as private makes it undetermined; an undetermined flag
  is adopted at the first observation and must then stay put until the next deciding
  notification;
* a room absent from the client's table is the default view (not joined, nobody in it, no
  owner/members/operators/tickers); existence itself is not compared;
* user status / stats that were never announced are unconstrained (adopted when observed).
"""
from __future__ import annotations

from typing import NamedTuple, Optional


class RoomState(NamedTuple):
    joined: bool = False
    users: tuple = ()                    # names, join order
    owner: Optional[str] = None
    members: frozenset = frozenset()
    operators: frozenset = frozenset()
    tickers: tuple = ()                  # ((user, text), ...) in order
    private: Optional[bool] = None       # None = undetermined


FIELDS = ('joined', 'users', 'owner', 'members', 'operators', 'tickers', 'private')
DEFAULT = RoomState()
STAT_NAMES = ('avg_speed', 'uploads', 'shared_file_count', 'shared_folder_count')

PRIVATE_KINDS = frozenset((
    'member_granted_self', 'member_revoked_self', 'op_granted_self', 'op_revoked_self',
    'member_granted', 'member_revoked', 'op_granted', 'op_revoked', 'members_list', 'operators_list'))


def _dedupe(items):
    out = []
    for it in items:
        if it not in out:
            out.append(it)
    return out


def _uniq(names):
    out = []
    for n in names:
        if n not in out:
            out.append(n)
    return tuple(out)


class Replica:

    def __init__(self, me: str):
        self.me = me
        self.rooms: dict[str, list[RoomState]] = {}
        self.users: dict[str, dict] = {}
        self.priv_list: Optional[frozenset] = None          # last privileged list, None = none yet
        self.priv_over: dict[str, tuple] = {}               # name -> (bool, source kind) since the last list
        self.room_history: dict[str, list[str]] = {}
        self.user_history: dict[str, list[str]] = {}
        self.applied = 0

    # ------------------------------------------------------------------ fold
    def apply(self, note: dict):
        kind = note['kind']
        fn = getattr(self, '_on_' + kind, None)
        if fn is not None:
            fn(note)
        self.applied += 1
        if kind == 'room_list':
            touched = set(self.rooms) | set(note['public']) | set(note['owned']) | set(note['member']) \
                | set(note['operated'])
            for room in sorted(touched):
                self.room_history.setdefault(room, []).append(kind)
        elif note.get('room') is not None:
            self.room_history.setdefault(note['room'], []).append(kind)
        names = []
        if note.get('user') is not None:
            names.append(note['user'])
        if kind == 'join_self':
            names.extend(u['name'] for u in note['users'])
        if kind == 'privileged_list':
            names.extend(note['users'])
        for name in _uniq(names):
            self.user_history.setdefault(name, []).append(kind)

    def _map(self, room: str, fn):
        alts = self.rooms.get(room) or [DEFAULT]
        out = []
        for s in alts:
            for t in fn(s):
                if t not in out:
                    out.append(t)
        self.rooms[room] = out

    @staticmethod
    def _touch_private(s: RoomState):
        return True if s.private is True else None

    # rooms: joins / leaves
    def _on_join_self(self, n):
        listed = _uniq(u['name'] for u in n['users'])
        owner = n.get('owner')
        ops = n.get('operators')

        def f(s: RoomState):
            merged = s.users + tuple(u for u in listed if u not in s.users)
            for users in _dedupe([merged, listed]):
                if owner is not None or ops is not None:
                    op_alts = [frozenset(ops or ())]
                else:
                    op_alts = _dedupe([frozenset(), s.operators])
                for o in op_alts:
                    yield s._replace(joined=True, users=users, owner=owner, operators=o,
                                     private=owner is not None)
        self._map(n['room'], f)
        for u in n['users']:
            self._set_user(u['name'], 'join_self', status=u['status'], stats=tuple(u['stats']))

    def _on_leave_self(self, n):
        self._map(n['room'], lambda s: [s._replace(joined=False, users=())])

    def _on_user_joined(self, n):
        u = n['user']
        self._map(n['room'], lambda s: [s if u in s.users else s._replace(users=s.users + (u,))])
        self._set_user(u, 'user_joined', status=n['status'], stats=tuple(n['stats']))

    def _on_user_left(self, n):
        u = n['user']
        self._map(n['room'], lambda s: [s._replace(users=tuple(x for x in s.users if x != u))])

    # rooms: private membership / operators
    def _grant_member(self, room, u):
        self._map(room, lambda s: [s._replace(members=s.members | {u}, private=self._touch_private(s))])

    def _revoke_member(self, room, u):
        def f(s: RoomState):
            base = s._replace(members=s.members - {u}, private=self._touch_private(s))
            yield base._replace(operators=s.operators - {u})
            yield base
        self._map(room, f)

    def _grant_op(self, room, u):
        self._map(room, lambda s: [s._replace(operators=s.operators | {u}, private=self._touch_private(s))])

    def _revoke_op(self, room, u):
        self._map(room, lambda s: [s._replace(operators=s.operators - {u}, private=self._touch_private(s))])

    def _on_member_granted_self(self, n):
        self._grant_member(n['room'], self.me)

    def _on_member_revoked_self(self, n):
        self._revoke_member(n['room'], self.me)

    def _on_op_granted_self(self, n):
        self._grant_op(n['room'], self.me)

    def _on_op_revoked_self(self, n):
        self._revoke_op(n['room'], self.me)

    def _on_member_granted(self, n):
        self._grant_member(n['room'], n['user'])

    def _on_member_revoked(self, n):
        self._revoke_member(n['room'], n['user'])

    def _on_op_granted(self, n):
        self._grant_op(n['room'], n['user'])

    def _on_op_revoked(self, n):
        self._revoke_op(n['room'], n['user'])

    def _on_members_list(self, n):
        new = frozenset(n['users'])
        self._map(n['room'], lambda s: [s._replace(members=new, private=self._touch_private(s))])

    def _on_operators_list(self, n):
        new = frozenset(n['users'])
        self._map(n['room'], lambda s: [s._replace(operators=new, private=self._touch_private(s))])

    # rooms: tickers
    def _on_tickers(self, n):
        acc: list = []
        for (u, t) in n['tickers']:
            acc = [(a, b) for (a, b) in acc if a != u] + [(u, t)]
        new = tuple(acc)
        self._map(n['room'], lambda s: [s._replace(tickers=new)])

    def _on_ticker_added(self, n):
        u, t = n['user'], n['text']

        def f(s: RoomState):
            if any(a == u for (a, _) in s.tickers):
                yield s._replace(tickers=tuple((a, t if a == u else b) for (a, b) in s.tickers))
            yield s._replace(tickers=tuple((a, b) for (a, b) in s.tickers if a != u) + ((u, t),))
        self._map(n['room'], f)

    def _on_ticker_removed(self, n):
        u = n['user']
        self._map(n['room'], lambda s: [s._replace(tickers=tuple((a, b) for (a, b) in s.tickers if a != u))])

    # rooms: list
    def _on_room_list(self, n):
        me = self.me
        public, owned, member, operated = (set(n['public']), set(n['owned']), set(n['member']),
                                           set(n['operated']))
        listed = public | owned | member
        for room in sorted(set(self.rooms) | listed | operated):

            def reconcile(s: RoomState, room=room):
                if room in owned:
                    owner = me
                else:
                    owner = None if s.owner == me else s.owner
                members = (s.members | {me}) if room in member else (s.members - {me})
                operators = (s.operators | {me}) if room in operated else (s.operators - {me})
                return s._replace(owner=owner, members=members, operators=operators)

            def f(s: RoomState, room=room):
                if room in listed:
                    yield reconcile(s)._replace(private=room not in public)
                else:
                    yield DEFAULT
                    yield s._replace(private=None)
                    yield reconcile(s)._replace(private=None)
            self._map(room, f)

    # users
    def _set_user(self, name, src, status=None, stats=None):
        rec = self.users.setdefault(name, {'status': None, 'stats': None, 'status_src': None, 'stats_src': None})
        if status is not None:
            rec['status'] = status
            rec['status_src'] = src
        if stats is not None:
            rec['stats'] = tuple(stats)
            rec['stats_src'] = src

    def _on_user_status(self, n):
        self._set_user(n['user'], 'user_status', status=n['status'])
        self.priv_over[n['user']] = (bool(n['privileged']), 'user_status')

    def _on_user_stats(self, n):
        self._set_user(n['user'], 'user_stats', stats=tuple(n['stats']))

    def _on_add_user(self, n):
        if n.get('exists'):
            self._set_user(n['user'], 'add_user', status=n.get('status'), stats=n.get('stats'))

    def _on_privileged_list(self, n):
        self.priv_list = frozenset(n['users'])
        self.priv_over = {}

    def _on_add_privileged(self, n):
        self.priv_over[n['user']] = (True, 'add_privileged')

    def privileged(self, name):
        """(expected value or None if never announced, kind that decided it)"""
        if name in self.priv_over:
            return self.priv_over[name]
        if self.priv_list is None:
            return (None, None)
        return (name in self.priv_list, 'privileged_list')

    # ------------------------------------------------------------------ queries
    def room_names(self):
        return sorted(self.rooms)

    def referenced(self, name: str) -> bool:
        if name == self.me:
            return True
        return any(name in s.users for alts in self.rooms.values() for s in alts)

    def prev_kind(self, room: str):
        h = self.room_history.get(room, [])
        return h[-2] if len(h) >= 2 else None

    def prev_user_kind(self, name: str):
        h = self.user_history.get(name, [])
        return h[-2] if len(h) >= 2 else None

    # ------------------------------------------------------------------ observations
    def observe_room(self, name: str, obs: Optional[RoomState]):
        """``obs`` = the client's view of the room, None if the client has no such room.
        Returns [(field, expected, observed)] (empty = admissible)."""
        alts = self.rooms.get(name) or [DEFAULT]
        present = obs is not None
        o = obs if present else DEFAULT

        def differs(alt: RoomState):
            d = []
            for f in FIELDS:
                if f == 'private':
                    if present and alt.private is not None and alt.private != o.private:
                        d.append(f)
                elif getattr(alt, f) != getattr(o, f):
                    d.append(f)
            return d

        scored = [(differs(a), a) for a in alts]
        matching = [a for (d, a) in scored if not d]
        if matching:
            kept = _dedupe([a._replace(private=o.private) if (present and a.private is None) else a
                            for a in matching])
            if not present and kept == [DEFAULT]:
                self.rooms.pop(name, None)
            else:
                self.rooms[name] = kept
            return []
        best_d, best = scored[0]
        for d, a in scored[1:]:
            if len(d) < len(best_d):
                best_d, best = d, a
        self.rooms[name] = [o._replace(private=o.private if present else best.private)]
        return [(f, getattr(best, f), getattr(o, f)) for f in best_d]

    def observe_user(self, name: str, status, stats, privileged):
        """Returns [(field, expected, observed, deciding kind)]; adopts the observation."""
        fresh = name not in self.users
        rec = self.users.setdefault(name, {'status': None, 'stats': None, 'status_src': None, 'stats_src': None})
        out = []
        if fresh and getattr(self, 'after_reset', False) and any(v is not None for v in stats):
            # a new session: nothing was announced about this user yet, so nothing is known about it - statistics seen
            # now can only stem from the session that ended
            out.append(('stats', (None, None, None, None), tuple(stats), 'session_reset'))
        if rec['status'] is not None and rec['status'] != status:
            out.append(('status', rec['status'], status, rec['status_src']))
        if rec['status'] != status:
            rec['status'] = status
            rec['status_src'] = 'adopted'
        if rec['stats'] is not None and tuple(rec['stats']) != tuple(stats):
            out.append(('stats', tuple(rec['stats']), tuple(stats), rec['stats_src']))
        if rec['stats'] is None or tuple(rec['stats']) != tuple(stats):
            if all(v is not None for v in stats):
                rec['stats'] = tuple(stats)
                rec['stats_src'] = 'adopted'
            elif rec['stats'] is not None:
                # observed "unknown" although announced: reported above; stay with the announcement
                rec['stats'] = None
                rec['stats_src'] = 'adopted'
        exp, src = self.privileged(name)
        if exp is not None and exp != privileged:
            out.append(('privileged', exp, privileged, src))
        if exp != privileged:
            self.priv_over[name] = (privileged, 'adopted')
        return out
