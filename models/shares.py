"""Reference model of the share index and of the query predicate (DESIGN.md B.6).

Written from the wording of property C07, ``docs/source/SOULSEEK.rst`` ("Searching /
Query rules") and ``docs/source/USAGE.rst`` ("Sharing"); it shares no code, no regular
expression and no data structure with ``aioslsk.shares``.

Reading of the property where the text leaves a choice
------------------------------------------------------
* **Which path is searched.**  A shared file is reported to other users as
  ``@@<alias>\\<sub directories>\\<file name>``: the local name of the shared directory is
  replaced by an opaque alias and never disclosed.  "The file's path" is therefore read as
  the path *below the innermost shared directory that contains the file* (sub directories
  and file name, components joined with a backslash), without the shared directory's own
  name and without the alias.  Consequence: the same file answers different queries
  depending on which shared directory owns it.
* **Whole words.**  SOULSEEK.rst: a term matches when it is preceded by a non-word
  character or the start of the path and followed by a non-word character or the end of
  the path.  A *word character* is an alphanumeric character (``str.isalnum``); the
  underscore and every other punctuation or space character, including the path
  separator, is a separator (the property's quantifier lists ``_`` among the separators).
  The term itself may contain separators ("terms containing punctuation"): it is then a
  literal substring that must be delimited as a whole.
* **Wildcard.**  ``*t`` matches when some maximal alphanumeric run, extended to the left
  of an occurrence of ``t``, starts at a boundary and the occurrence is followed by a
  boundary ("zero or more word characters, then the term").
* **Kinds.**  The first character of a whitespace separated token decides: ``*`` wildcard,
  ``-`` exclude, otherwise include; the rest of the token is the literal term.  Tokens
  without any alphanumeric character are dropped.  A query without include or wildcard
  term matches nothing.
* **Case.**  Both sides are compared after ``str.lower()``.  This is only a faithful
  reading of "case-insensitively" for characters whose case mapping is one-to-one and
  context free; users of the model must keep other characters out of their alphabets.
* **Path separators inside a term.**  ``/`` and ``\\`` are treated as the same character
  on both sides (the documents allow either in a query).  The reported path only contains
  backslashes; C07 does not generate ``/`` inside terms.
* **Index.**  A file is *known* once a scan of the shared directory owning it has seen it
  and until a later scan of its owner does not see it any more or its outermost shared
  directory is removed.  Adding or removing a nested shared directory never changes which
  files are known, only who owns them (USAGE.rst / the documented behaviour of
  ``add_shared_directory`` and ``remove_shared_directory``: items move between parent and
  child).  Every known file is indexed once, owned by the innermost shared directory
  containing it.  Folder count = number of distinct directories holding at least one
  indexed file.
"""
from __future__ import annotations

import os
from typing import Iterable, Optional

SEP = '\\'

INCLUDE = 'include'
EXCLUDE = 'exclude'
WILDCARD = 'wildcard'


# ----------------------------------------------------------------------------- matcher

def is_word_char(ch: str) -> bool:
    """Alphanumeric; ``_`` and all punctuation/space are separators."""
    return ch.isalnum()


def normalise(path: str) -> str:
    """Lower-case, both separator characters unified to a backslash."""
    return path.replace('/', SEP).lower()


def tokens(query: str) -> list[tuple[str, str]]:
    """``[(kind, lower-cased literal term), ...]`` in query order, duplicates removed."""
    out: list[tuple[str, str]] = []
    for token in query.split():
        if not any(is_word_char(ch) for ch in token):
            continue
        if token[0] == '*':
            entry = (WILDCARD, normalise(token[1:]))
        elif token[0] == '-':
            entry = (EXCLUDE, normalise(token[1:]))
        else:
            entry = (INCLUDE, normalise(token))
        if entry not in out:
            out.append(entry)
    return out


def _occurrences(path: str, term: str):
    start = 0
    while True:
        i = path.find(term, start)
        if i < 0:
            return
        yield i, i + len(term)
        start = i + 1


def _left_bounded(path: str, i: int) -> bool:
    return i == 0 or not is_word_char(path[i - 1])


def _right_bounded(path: str, j: int) -> bool:
    return j == len(path) or not is_word_char(path[j])


def include_hit(path: str, term: str) -> bool:
    """``path`` and ``term`` already normalised."""
    return any(_left_bounded(path, i) and _right_bounded(path, j) for i, j in _occurrences(path, term))


def wildcard_hit(path: str, term: str) -> bool:
    for i, j in _occurrences(path, term):
        if not _right_bounded(path, j):
            continue
        k = i
        while k > 0 and is_word_char(path[k - 1]):
            k -= 1
        if _left_bounded(path, k):      # true by maximality; kept to mirror the wording
            return True
    return False


def matches(query: str, rel_path_lower_or_raw: str) -> bool:
    """Does the file whose path below its shared directory is ``rel_path`` answer ``query``?"""
    toks = tokens(query)
    if not any(kind in (INCLUDE, WILDCARD) for kind, _ in toks):
        return False
    path = normalise(rel_path_lower_or_raw)
    for kind, term in toks:
        if kind == INCLUDE and not include_hit(path, term):
            return False
        if kind == WILDCARD and not wildcard_hit(path, term):
            return False
        if kind == EXCLUDE and include_hit(path, term):
            return False
    return True


def words(rel_path: str) -> set[str]:
    """Maximal alphanumeric runs of the normalised path."""
    out = set()
    cur = []
    for ch in normalise(rel_path):
        if is_word_char(ch):
            cur.append(ch)
        elif cur:
            out.add(''.join(cur))
            cur = []
    if cur:
        out.add(''.join(cur))
    return out


def leading_word(term: str) -> str:
    """Alphanumeric prefix of a term (the part a wildcard extends to the left)."""
    n = 0
    while n < len(term) and is_word_char(term[n]):
        n += 1
    return term[:n]


def has_inner_punctuation(term: str) -> bool:
    return any(not is_word_char(ch) for ch in term)


# ----------------------------------------------------------------------------- index

def _inside(directory: str, path: str) -> bool:
    """``path`` is ``directory`` or lies below it (both absolute, normalised)."""
    if path == directory:
        return True
    prefix = directory if directory.endswith(os.sep) else directory + os.sep
    return path.startswith(prefix)


def list_files(directory: str) -> list[str]:
    """Regular files below ``directory`` on the real disk, sorted, absolute."""
    out = []
    for base, dirs, files in os.walk(directory):
        dirs.sort()
        for name in files:
            out.append(os.path.join(base, name))
    out.sort()
    return out


class ShareIndexModel:
    """Expected index: known files, each owned by the innermost shared directory.

    ``shared``: ``{absolute directory: {'mode': 'everyone'|'friends'|'users', 'users': [...]}}``.
    ``known``: files the index has to contain; ``optional``: files whose presence is not
    determined (changed on disk while a scan that covers them was running).
    ``exact`` is False while the history does not determine ``known`` (share operations
    overlapped a running scan); a clean full scan makes it exact again.
    ``moved``: for known files whose owner changed through an add/remove of a nested shared
    directory since they were last scanned: the kind of that operation (diagnostics only).
    """

    def __init__(self):
        self.shared: dict[str, dict] = {}
        self.known: set[str] = set()
        self.optional: set[str] = set()
        self.exact = True
        self.moved: dict[str, str] = {}
        self.removed: dict[str, dict] = {}

    # -- shared directories ----------------------------------------------------
    @staticmethod
    def norm(directory: str) -> str:
        return os.path.normpath(os.path.abspath(directory))

    def is_shared(self, directory: str) -> bool:
        return self.norm(directory) in self.shared

    def owner_of(self, path: str, shared: Optional[Iterable[str]] = None) -> Optional[str]:
        """Innermost shared directory containing ``path`` (None: not shared)."""
        best = None
        for directory in (self.shared if shared is None else shared):
            if _inside(directory, path) and path != directory:
                if best is None or len(directory) > len(best):
                    best = directory
        return best

    def relation(self, directory: str) -> str:
        """How ``directory`` relates to the current shared directories:
        'nested' (inside one), 'parent' (contains one), 'nested+parent', 'top'."""
        directory = self.norm(directory)
        inside = any(_inside(d, directory) and d != directory for d in self.shared)
        contains = any(_inside(directory, d) and d != directory for d in self.shared)
        return ('nested+parent' if inside and contains else 'nested' if inside
                else 'parent' if contains else 'top')

    def add(self, directory: str, mode: str = 'everyone', users: Iterable[str] = ()):
        directory = self.norm(directory)
        before = {f: self.owner_of(f) for f in self.known | self.optional}
        self.shared[directory] = {'mode': mode, 'users': list(users)}
        self.removed.pop(directory, None)
        for f, old in before.items():
            if self.owner_of(f) != old:
                self.moved[f] = 'add_nested'

    def update(self, directory: str, mode: Optional[str] = None, users: Optional[Iterable[str]] = None):
        cfg = self.shared[self.norm(directory)]
        if mode is not None:
            cfg['mode'] = mode
        if users is not None:
            cfg['users'] = list(users)

    def remove(self, directory: str, handle_kept: bool = False, alias: Optional[str] = None):
        directory = self.norm(directory)
        before = {f: self.owner_of(f) for f in self.known | self.optional}
        del self.shared[directory]
        self.removed[directory] = {'gc': False, 'kept': bool(handle_kept), 'alias': alias}
        for f, old in before.items():
            new = self.owner_of(f)
            if new is None:
                self.known.discard(f)
                self.optional.discard(f)
                self.moved.pop(f, None)
            elif new != old:
                self.moved[f] = 'remove_nested'

    def reload(self, configured: Iterable[tuple]):
        """The shared directories were loaded again from an empty cache and the settings: exactly the configured
        directories are shared, as fresh directories (nothing indexed until they are scanned).
        ``configured``: ``(directory, mode, users)``."""
        old = dict(self.shared)
        self.shared = {}
        self.known = set()
        self.optional = set()
        self.moved = {}
        for directory, mode, users in configured:
            self.shared[self.norm(directory)] = {'mode': mode, 'users': list(users)}
        for directory in old:
            if directory not in self.shared:
                self.removed[directory] = {'gc': False, 'kept': False, 'alias': None}
        for directory in self.shared:
            self.removed.pop(directory, None)

    def collected(self):
        """A garbage collection ran (diagnostic fact for results of removed directories)."""
        for rec in self.removed.values():
            rec['gc'] = True

    def removal_of(self, path: str, alias: Optional[str] = None) -> Optional[dict]:
        """Record of the removed (and not re-added) directory ``path`` is reported under
        (by alias, when known), else of the innermost removed directory containing it."""
        if alias is not None:
            for directory, rec in self.removed.items():
                if rec.get('alias') == alias and _inside(directory, path):
                    return rec
        best = None
        for directory in self.removed:
            if _inside(directory, path) and (best is None or len(directory) > len(best)):
                best = directory
        return self.removed[best] if best is not None else None

    # -- scans -------------------------------------------------------------------
    def owned_on_disk(self, directory: str, shared: Optional[Iterable[str]] = None) -> set[str]:
        """Files on disk now whose innermost shared directory (among ``shared``) is ``directory``."""
        shared = list(self.shared if shared is None else shared)
        return {f for f in list_files(directory) if self.owner_of(f, shared) == directory}

    def scanned(self, directory: str, uncertain: Iterable[str] = ()):
        """A scan of ``directory`` completed without a concurrent share operation.
        ``uncertain``: files that changed on disk while it ran."""
        directory = self.norm(directory)
        if directory not in self.shared:
            return
        uncertain = {f for f in uncertain if self.owner_of(f) == directory}
        mine = {f for f in self.known | self.optional if self.owner_of(f) == directory}
        self.known -= mine
        self.optional -= mine
        for f in mine:
            self.moved.pop(f, None)
        now = self.owned_on_disk(directory)
        self.known |= now - uncertain
        self.optional |= uncertain

    def scanned_all(self, uncertain: Iterable[str] = ()):
        """A full scan completed without a concurrent share operation: the model is exact."""
        uncertain = set(uncertain)
        self.known = set()
        self.optional = set()
        self.moved = {}
        for directory in sorted(self.shared):
            self.scanned(directory, uncertain)
        self.exact = True

    # -- expectations --------------------------------------------------------------
    def expected_index(self, include_optional: bool = False) -> dict[str, str]:
        """``{absolute file path: owning shared directory}``."""
        files = self.known | self.optional if include_optional else self.known - self.optional
        out = {}
        for f in sorted(files):
            owner = self.owner_of(f)
            if owner is not None:
                out[f] = owner
        return out

    def query_path(self, path: str, owner: Optional[str] = None) -> Optional[str]:
        """Path below the owning shared directory in reported form (backslashes)."""
        owner = owner or self.owner_of(path)
        if owner is None:
            return None
        return os.path.relpath(path, owner).replace(os.sep, SEP)

    @staticmethod
    def stats(index: Iterable[str]) -> tuple[int, int]:
        """(folder count, file count) of an index given as absolute file paths."""
        index = list(index)
        return len({os.path.dirname(f) for f in index}), len(index)

    def reference_matches(self, query: str, include_optional: bool = False) -> set[str]:
        return {f for f, owner in self.expected_index(include_optional).items()
                if matches(query, self.query_path(f, owner))}

    def indexed_words(self) -> set[str]:
        out: set[str] = set()
        for f, owner in self.expected_index(True).items():
            out |= words(self.query_path(f, owner))
        return out

    # -- entitlement (used by C08/C14; C07 judges visible + locked together) --------
    def locked_for(self, path: str, username: str, friends: Iterable[str] = ()) -> Optional[bool]:
        owner = self.owner_of(path)
        if owner is None:
            return None
        cfg = self.shared[owner]
        if cfg['mode'] == 'friends':
            return username not in set(friends)
        if cfg['mode'] == 'users':
            return username not in cfg['users']
        return False
