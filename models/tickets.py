"""Reference models for C18 (DESIGN.md appendix B.4), written from the property text.

``TicketModel``  live-ticket model of outgoing searches.  The harness feeds it the observed
history (request sent, manual removal, reply delivered, result event, removal event) and
``evaluate`` answers with the list of (invariant, facts) the history violates:

* a request is *live* from the instant it was sent until the first of: manual removal, sent +
  timeout (timeout > 0);
* a delivered reply with ticket T yields exactly one result event iff a request with ticket T
  is live at the delivery instant, and that event carries that request (C18.result_iff);
* tickets of simultaneously live requests differ (C18.ticket_unique);
* a request with a timeout that was not removed by hand before is reported removed exactly
  once (C18.removed_count), at sent + timeout and not before (C18.removed_time);
* nothing is reported for a request after the user removed it (C18.after_remove).

Whatever happens in the same virtual instant (|dt| <= EPS) as the start or the end of a live
interval may go either way *for the event that ties*; nothing else is tolerated.

``TimerModel``  deadline model of ``aioslsk.tasks.Timer``: a deadline that was cancelled or
superseded never calls back, an armed one calls back exactly once at the deadline (C18.timer).

Neither model looks at the implementation: inputs are times, tickets and opaque identities.
"""
from __future__ import annotations

import itertools
import math

EPS = 5e-10          # two observations closer than this are "the same virtual instant"
LATE = 1e-3          # a removal / callback may be reported this much after its deadline
INF = math.inf


# ------------------------------------------------------------------------------ tickets

class ModelRequest:
    __slots__ = ('ident', 'key', 'ticket', 'typ', 'sent_at', 'taus', 'tau', 'manual', 'removed_events')

    def __init__(self, ident, key, ticket, typ, sent_at, taus):
        self.ident = ident
        self.key = key
        self.ticket = ticket
        self.typ = typ
        self.sent_at = sent_at
        self.taus = list(taus) or [None]     # admissible timeouts (None = keep indefinitely)
        self.tau = self.taus[-1]
        self.manual = []                     # instants of user removals (attempts)
        self.removed_events = []             # instants of SearchRequestRemovedEvent

    @property
    def deadline(self):
        return self.sent_at + self.tau if self.tau else INF

    @property
    def manual_at(self):
        return min(self.manual) if self.manual else INF

    @property
    def end(self):
        return min(self.deadline, self.manual_at)

    def live(self, t) -> str:
        """'yes' / 'no' / 'maybe' (t ties with the start or the end of the live interval)."""
        if abs(t - self.sent_at) <= EPS or abs(t - self.end) <= EPS:
            return 'maybe'
        return 'yes' if self.sent_at < t < self.end else 'no'


class TicketModel:

    def __init__(self):
        self.requests: list[ModelRequest] = []
        self.replies = []      # (marker, ticket, t)
        self.results = []      # (marker, ident or None, t)
        self.stray_removed = []  # removal events for requests never announced
        self.refusals = []     # (ident, t): the registry did not know a request the user removed
        self.snapshots = []    # (t, identities found in the public registry)

    # ---- history ------------------------------------------------------------------
    def sent(self, ident, key, ticket, typ, t, taus):
        self.requests.append(ModelRequest(ident, key, ticket, typ, t, taus))

    def _by_ident(self, ident):
        for r in self.requests:
            if r.ident == ident:
                return r
        return None

    def manual_remove(self, ident, t):
        r = self._by_ident(ident)
        if r is not None:
            r.manual.append(t)

    def reply(self, marker, ticket, t):
        self.replies.append((marker, ticket, t))

    def result(self, marker, ident, t):
        self.results.append((marker, ident, t))

    def removed(self, ident, t):
        r = self._by_ident(ident) if ident is not None else None
        if r is None:
            self.stray_removed.append(t)
        else:
            r.removed_events.append(t)

    def refused(self, ident, t):
        """The user's removal at instant t was refused (request unknown to the registry)."""
        self.refusals.append((ident, t))

    def snapshot(self, t, registered):
        """``registered``: identities found in the public registry at instant t."""
        self.snapshots.append((t, set(registered)))

    # ---- verdict ------------------------------------------------------------------
    def evaluate(self, t_end: float, margin: float = 0.5):
        """-> (violations [(invariant, facts)], stats)

        Where the timeout in force at a send instant is ambiguous (the setting or the server
        interval changed in that very instant) every admissible value is tried; the history is
        in violation only if no admissible reading explains it (the reading with the fewest
        violations is reported)."""
        ambiguous = [r for r in self.requests if len(r.taus) > 1][:4]
        best = None
        for choice in itertools.product(*[r.taus for r in ambiguous]):
            for r, tau in zip(ambiguous, choice):
                r.tau = tau
            res = self._evaluate(t_end, margin)
            if best is None or len(res[0]) < len(best[0]):
                best = res
                chosen = choice
            if not res[0]:
                break
        for r, tau in zip(ambiguous, chosen):
            r.tau = tau
        return best

    def _evaluate(self, t_end: float, margin: float):
        out = []
        stats = {'ties': 0, 'stale_replies': 0, 'live_replies': 0, 'expired': 0, 'manual': 0,
                 'overlap': 0, 'reply_status': []}

        # --- distinct tickets among live requests
        for i, b in enumerate(self.requests):
            for a in self.requests[:i]:
                if a.end > b.sent_at + EPS:
                    stats['overlap'] += 1
                    if a.ticket == b.ticket:
                        out.append(('C18.ticket_unique', {'types': sorted((a.typ, b.typ))}))

        # --- result iff live
        by_marker = {}
        for marker, ident, t in self.results:
            by_marker.setdefault(marker, []).append((ident, t))
        delivered = set()
        for marker, ticket, t in self.replies:
            delivered.add(marker)
            cands = [r for r in self.requests if r.ticket == ticket]
            status = {r.ident: r.live(t) for r in cands}
            yes = [r for r in cands if status[r.ident] == 'yes']
            maybe = [r for r in cands if status[r.ident] == 'maybe']
            events = by_marker.get(marker, [])
            if yes:
                stats['live_replies'] += 1
                stats['reply_status'].append('live')
                target = yes[0]
                if not events:
                    out.append(('C18.result_iff', {'why': 'missing', 'type': target.typ}))
                elif len(events) > 1:
                    out.append(('C18.result_iff', {'why': 'duplicate', 'type': target.typ}))
                elif events[0][0] not in [r.ident for r in yes]:
                    out.append(('C18.result_iff', {'why': 'wrong_request', 'type': target.typ}))
            elif maybe:
                stats['ties'] += 1
                stats['reply_status'].append('tie')
                if len(events) > 1:
                    out.append(('C18.result_iff', {'why': 'duplicate', 'type': maybe[0].typ}))
                elif events and events[0][0] not in [r.ident for r in maybe]:
                    out.append(('C18.result_iff', {'why': 'wrong_request', 'type': maybe[0].typ}))
            else:
                if cands:
                    stats['stale_replies'] += 1
                    stats['reply_status'].append('stale')
                else:
                    stats['reply_status'].append('unknown')
                for ident, _t in events:
                    got = self._by_ident(ident) if ident is not None else None
                    if got is not None and got.manual and got.manual_at < t - EPS:
                        # reported below as C18.after_remove
                        continue
                    if not cands:
                        why = 'unknown_ticket'
                    elif all(t < r.sent_at for r in cands):
                        why = 'not_sent_yet'
                    elif any(r.manual_at < t and r.manual_at <= r.deadline for r in cands):
                        why = 'removed'
                    else:
                        why = 'expired'
                    out.append(('C18.result_iff', {'why': why,
                                                   'attached_to': got.typ if got is not None else None}))
        for marker, evs in by_marker.items():
            if marker not in delivered:
                out.append(('C18.result_iff', {'why': 'no_reply_delivered'}))

        # --- nothing after a manual removal
        for marker, ident, t in self.results:
            r = self._by_ident(ident) if ident is not None else None
            if r is not None and r.manual and t > r.manual_at + EPS:
                out.append(('C18.after_remove', {'what': 'result event', 'type': r.typ}))
            elif r is not None and t > r.deadline + EPS:
                # "reported iff the request is still registered": judged at the instant of the report as well
                out.append(('C18.result_iff', {'why': 'reported_after_expiry', 'type': r.typ}))

        # --- removal by timeout: exactly once, at the deadline, not before
        for r in self.requests:
            evs = sorted(r.removed_events)
            d = r.deadline
            m = r.manual_at
            if r.manual:
                stats['manual'] += 1
            if d < INF and m > d + EPS:
                # expiry comes first: exactly one report, at the deadline
                early = [e for e in evs if e < d - EPS]
                if early:
                    out.append(('C18.removed_time', {'when': 'early', 'type': r.typ}))
                if d <= t_end - margin:
                    stats['expired'] += 1
                    rest = [e for e in evs if e >= d - EPS]
                    if len(rest) == 0:
                        out.append(('C18.removed_count', {'count': 0, 'type': r.typ}))
                    elif len(rest) > 1:
                        out.append(('C18.removed_count', {'count': min(len(rest), 3), 'type': r.typ}))
                    elif rest[0] > d + LATE:
                        out.append(('C18.removed_time', {'when': 'late', 'type': r.typ}))
                elif len(evs) - len(early) > 1:
                    out.append(('C18.removed_count', {'count': min(len(evs) - len(early), 3), 'type': r.typ}))
            elif m < INF and m < d - EPS:
                # the user removed it first: at most one report, and only in the instant of the removal
                bad = [e for e in evs if abs(e - m) > EPS]
                if any(e < m for e in bad):
                    out.append(('C18.removed_time', {'when': 'early', 'type': r.typ}))
                if any(e > m for e in bad):
                    out.append(('C18.after_remove', {'what': 'removal event', 'type': r.typ}))
                if len(evs) - len(bad) > 1:
                    out.append(('C18.removed_count', {'count': min(len(evs), 3), 'type': r.typ, 'manual': True}))
            elif m < INF:
                # manual removal and expiry tie: either one report in that instant or none
                stats['ties'] += 1
                if any(e < d - EPS for e in evs):
                    out.append(('C18.removed_time', {'when': 'early', 'type': r.typ}))
                if any(e > d + LATE for e in evs):
                    out.append(('C18.after_remove', {'what': 'removal event', 'type': r.typ}))
                if len(evs) > 1:
                    out.append(('C18.removed_count', {'count': min(len(evs), 3), 'type': r.typ, 'manual': True}))
            else:
                # no timeout, never removed: nothing to report
                if evs:
                    out.append(('C18.removed_count', {'count': min(len(evs), 3), 'type': r.typ, 'timeout': 0}))
        if self.stray_removed:
            out.append(('C18.removed_count', {'count': min(len(self.stray_removed), 3), 'type': None}))

        # --- the registry itself: a refused removal / a snapshot must agree with the live intervals
        for ident, t in self.refusals:
            r = self._by_ident(ident)
            if r is None:
                continue
            earlier = [m for m in r.manual if m < t - EPS]
            if not earlier and r.sent_at < t - EPS and r.deadline > t + EPS:
                out.append(('C18.removed_time', {'when': 'early', 'observed': 'remove_request refused', 'type': r.typ}))
        for t, registered in self.snapshots:
            for r in self.requests:
                status = r.live(t)
                if status == 'yes' and r.ident not in registered:
                    out.append(('C18.removed_time', {'when': 'early', 'observed': 'not registered', 'type': r.typ}))
                elif status == 'no' and r.ident in registered and r.end <= t - LATE:
                    if r.manual and r.manual_at <= r.deadline:
                        out.append(('C18.after_remove', {'what': 'still registered', 'type': r.typ}))
                    else:
                        out.append(('C18.removed_count', {'count': 0, 'observed': 'still registered', 'type': r.typ}))
        return out, stats


# -------------------------------------------------------------------------------- timer

class Arm:
    __slots__ = ('armed_at', 'deadline', 'ended_at', 'how', 'rearm')

    def __init__(self, armed_at, deadline, rearm):
        self.armed_at = armed_at
        self.deadline = deadline
        self.ended_at = None     # instant of the cancel / reschedule that superseded it
        self.how = None          # 'cancel' | 'reschedule' | 'restart'
        self.rearm = rearm       # armed by reschedule (True) or by start (False)

    def expectation(self) -> str:
        """'must' call back, 'never', or 'either' (superseded in the instant of the deadline)."""
        if self.ended_at is None:
            return 'must'
        if self.how == 'restart':
            return 'either'      # start() on an armed timer: the statement does not decide
        if self.ended_at < self.deadline - EPS:
            return 'never'
        if self.ended_at > self.deadline + EPS:
            return 'must'
        return 'either'


class TimerModel:

    def __init__(self, timeout: float):
        self.timeout = timeout
        self.arms: list[Arm] = []
        self.current: Arm | None = None

    def armed_deadline(self, now):
        cur = self.current
        if cur is not None and cur.deadline >= now - EPS:
            return cur.deadline
        return None

    def _supersede(self, t, how):
        cur = self.current
        if cur is not None and cur.ended_at is None:
            cur.ended_at = t
            cur.how = how
        self.current = None

    def start(self, t):
        cur = self.current
        if cur is not None and cur.deadline > t + EPS:
            self._supersede(t, 'restart')
        arm = Arm(t, t + self.timeout, False)
        self.arms.append(arm)
        self.current = arm

    def cancel(self, t):
        self._supersede(t, 'cancel')

    def reschedule(self, t, timeout=None):
        if timeout is not None:
            self.timeout = timeout
        self._supersede(t, 'reschedule')
        arm = Arm(t, t + self.timeout, True)
        self.arms.append(arm)
        self.current = arm

    def evaluate(self, callbacks, t_end: float, margin: float = 0.25):
        """callbacks: instants at which the callback was invoked -> (violations, stats)"""
        out = []
        stats = {'ties': 0, 'superseded': 0, 'fired': 0}
        used = [0] * len(self.arms)
        expect = [a.expectation() for a in self.arms]
        stats['ties'] = expect.count('either')
        stats['superseded'] = sum(1 for a in self.arms if a.ended_at is not None and a.how != 'restart')
        for c in sorted(callbacks):
            match = None
            for want in ('must', 'either', 'never'):
                for i, a in enumerate(self.arms):
                    if expect[i] != want or used[i]:
                        continue
                    if -EPS <= c - a.deadline <= LATE:
                        match = i
                        break
                if match is not None:
                    break
            if match is None:
                # a second call for a deadline already served, or a call at no deadline at all
                dup = [i for i, a in enumerate(self.arms) if used[i] and -EPS <= c - a.deadline <= LATE]
                if dup:
                    out.append(('C18.timer', {'what': 'called back twice', 'rearmed': self.arms[dup[0]].rearm}))
                else:
                    early = any(a.armed_at - EPS <= c < a.deadline - EPS and expect[i] != 'never' and not used[i]
                                for i, a in enumerate(self.arms))
                    out.append(('C18.timer', {'what': 'called back early' if early else 'called back at no deadline'}))
                continue
            used[match] += 1
            stats['fired'] += 1
            if expect[match] == 'never':
                a = self.arms[match]
                out.append(('C18.timer', {'what': ('cancelled deadline called back' if a.how == 'cancel'
                                                   else 'superseded deadline called back'),
                                          'rearmed': a.rearm}))
        for i, a in enumerate(self.arms):
            if expect[i] == 'must' and not used[i] and a.deadline <= t_end - margin:
                out.append(('C18.timer', {'what': 'deadline did not call back', 'rearmed': a.rearm}))
        return out, stats
