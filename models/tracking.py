"""Reference model for C15 - user tracking mirrors the set of reasons (DESIGN.md B.3).

Written from the property statement and docs/source/USAGE.rst ("User Tracking"), not from
aioslsk/user/manager.py.  Pure Python over plain data; no aioslsk import.

Specification, per user:

* the *reasons* are a set of flags folded over the track/untrack calls in issue order
  (``track(f)`` adds f, ``untrack(f)`` removes f; removing an absent flag is a no-op);
* a track request (``Add``) goes to the server when the set goes from empty to non-empty, an
  untrack request (``Remove``) when it becomes empty again, and never otherwise - so the
  transition frames of one user strictly alternate Add, Remove, Add, ...;
* an attempt (``Add``) the server confirms with *exists* ends in TRACKED; an attempt answered
  *not-exists* is retried 600 s later, an attempt without answer is given up after 10 s and
  retried 10 s after that - in both cases only while a reason remains;
* the worker that talks to the server is sequential: the next frame of a user is sent once the
  previous attempt concluded (answer received / 10 s elapsed);
* when the server connection closes everything is dropped: no reasons, no pending retry, every
  state UNTRACKED; calls issued afterwards start from the empty set again.

The wire is judged by an *acceptor* (`judge_user`) that walks the observed frame sequence along
the transition sequence: every observed frame is either the next transition, or an extra ``Add``
inside a tracked interval (= a retry, judged by the timing-robust retry clauses), or a divergence.
"""
from __future__ import annotations

from typing import Optional

WAIT_ANSWER = 10.0          # an attempt without answer is concluded after 10 s
RETRY_SILENT = 10.0         # documented retry delay after a network failure / no answer
RETRY_NOTEXISTS = 600.0     # documented retry delay for an unknown user
RETRY_SLACK = 15.0          # "it does happen within the delay + 15 s if a reason remains"
EPS = 1e-6

FAILED = ('silent', 'notexists')


# ----------------------------------------------------------------------------- flag fold

def apply(flags: frozenset, op: str, flag: str) -> frozenset:
    if op == 'track':
        return flags | {flag}
    if op == 'untrack':
        return flags - {flag}
    raise ValueError(op)


def fold(calls, start: frozenset = frozenset()) -> frozenset:
    flags = start
    for c in calls:
        flags = apply(flags, c['op'], c['flag'])
    return flags


def transitions(calls) -> list:
    """[(index into calls, 'Add'|'Remove')] - the emptiness changes of the fold."""
    out = []
    flags = frozenset()
    for i, c in enumerate(calls):
        new = apply(flags, c['op'], c['flag'])
        if not flags and new:
            out.append((i, 'Add'))
        elif flags and not new:
            out.append((i, 'Remove'))
        flags = new
    return out


class FlagFold:
    """Incremental fold used by the driver while a run is in progress (run length only)."""

    def __init__(self):
        self.flags: dict = {}

    def call(self, user: str, op: str, flag: str) -> Optional[str]:
        old = self.flags.get(user, frozenset())
        new = apply(old, op, flag)
        self.flags[user] = new
        if not old and new:
            return 'Add'
        if old and not new:
            return 'Remove'
        return None

    def reset(self):
        self.flags.clear()

    def get(self, user: str) -> frozenset:
        return self.flags.get(user, frozenset())


# ----------------------------------------------------------------------------- retry timing

def retry_delay(behaviour: str) -> float:
    """Seconds between the arrival of a failed attempt at the server and the earliest arrival
    of its retry (latency differences aside)."""
    if behaviour == 'silent':
        return WAIT_ANSWER + RETRY_SILENT
    if behaviour == 'notexists':
        return RETRY_NOTEXISTS
    raise ValueError(behaviour)


def worker_free_at(frame, lat_max: float) -> float:
    """Upper bound of the client-side instant at which the attempt ``frame`` is concluded."""
    if frame['behaviour'] == 'silent':
        return frame['t'] + WAIT_ANSWER
    return frame['t'] + lat_max


# ----------------------------------------------------------------------------- acceptor

def split_by_loss(calls, loss):
    """-> (before, coincident, after).  ``before`` are dropped by the loss, ``after`` start from
    the empty set, ``coincident`` (same virtual instant as the client's close handling) may go
    either way."""
    if loss is None or loss.get('client_lo') is None:
        return list(calls), [], []
    lo = loss['client_lo'] - EPS
    hi = (loss['client_hi'] if loss.get('client_hi') is not None else loss['client_lo']) + EPS
    before = [c for c in calls if c['t'] < lo]
    co = [c for c in calls if lo <= c['t'] <= hi]
    after = [c for c in calls if c['t'] > hi]
    return before, co, after


def acceptable_final_flags(calls, loss) -> list:
    """List of acceptable final flag sets (frozensets)."""
    if loss is None:
        return [fold(calls)]
    if loss.get('client_lo') is None:
        # the client never noticed the loss (cannot happen with FIN/RST; kept for safety)
        return [fold(calls)]
    before, co, after = split_by_loss(calls, loss)
    out = []
    # the reset happens at one point of the coincident run: a prefix is dropped, the rest kept
    for cut in range(len(co) + 1):
        flags = fold(co[cut:] + after)
        if flags not in out:
            out.append(flags)
    return out


def judge_user(calls, frames, *, loss=None, t_end: float, lat_min: float, lat_max: float,
               final_flags=None, final_state: Optional[str] = None, events=()) -> dict:
    """Judge one user's history.

    calls   [{'t', 'op', 'flag', ...}] in issue order
    frames  [{'t' (arrival at the server), 'kind': 'Add'|'Remove', 'behaviour'}] in arrival order
    loss    None | {'server': t injected, 'client_lo': t CLOSING seen, 'client_hi': t CLOSED seen}
    events  [(t, state name)] tracking-state events of this user on the client's bus
    returns {'violations': [(invariant, facts)], 'word': [...], 'expected': [...], 'retries': n,
             'truncated': bool, 'flags': [acceptable final flag sets]}
    """
    violations = []
    span = max(lat_max - lat_min, 0.0)
    cutoff = loss['server'] if loss is not None else t_end

    before, co, after = split_by_loss(calls, loss)
    wire_calls = before if loss is not None else list(calls)
    trans = transitions(wire_calls)
    expected_word = [k for (_, k) in trans]

    p = 0                      # next expected transition
    in_interval = False        # between a matched Add and its Remove
    last_attempt = None        # last Add frame of the current interval
    last_attempt_any = None    # last Add frame at all (for the worker-free bound)
    prev_interval_failed = None
    retries = 0
    diverged = False

    def want(pp):
        return trans[pp][1] if pp < len(trans) else 'end'

    def close_interval(reason_until: float):
        """The interval's last attempt is ``last_attempt``: a failed one obliges a retry while
        the reason remains."""
        a = last_attempt
        if a is None or a['behaviour'] not in FAILED:
            return
        limit = a['t'] + retry_delay(a['behaviour']) + RETRY_SLACK
        if limit < min(reason_until, cutoff) - EPS:
            violations.append(('C15.retry_rule', {'why': 'missing', 'after': a['behaviour']}))

    for f in frames:
        exp = want(p)
        caused = p < len(trans) and f['t'] >= wire_calls[trans[p][0]]['t'] - EPS
        if f['kind'] == 'Remove':
            if exp == 'Remove' and caused:
                close_interval(wire_calls[trans[p][0]]['t'])
                prev_interval_failed = (last_attempt is not None and last_attempt['behaviour'] in FAILED)
                p += 1
                in_interval = False
                last_attempt = None
                continue
            violations.append(('C15.wire_sequence', {'expected': exp if exp != 'Remove' else 'none',
                                                     'got': 'Remove'}))
            diverged = True
            break
        # Add
        if exp == 'Add' and caused:
            p += 1
            in_interval = True
            last_attempt = f
            last_attempt_any = f
            continue
        if in_interval:
            # a retry: judged against the attempt before it
            retries += 1
            a = last_attempt
            b = a['behaviour']
            if b not in FAILED:
                violations.append(('C15.retry_rule', {'why': 'after_confirmed'}))
            else:
                gap = f['t'] - a['t']
                need = retry_delay(b)
                if gap < need - span - EPS:
                    violations.append(('C15.retry_rule', {'why': 'too_early', 'after': b}))
                elif gap > need + RETRY_SLACK + EPS:
                    violations.append(('C15.retry_rule', {'why': 'missing', 'after': b, 'late': True}))
            if exp == 'Remove':
                down = wire_calls[trans[p][0]]
                if down['t'] < f['t'] - lat_max - EPS:
                    violations.append(('C15.retry_rule', {'why': 'no_reason_remains'}))
            last_attempt = f
            last_attempt_any = f
            continue
        # an Add that is neither a transition nor inside a tracked interval
        if prev_interval_failed:
            violations.append(('C15.retry_rule', {'why': 'no_reason_remains'}))
        else:
            violations.append(('C15.wire_sequence', {'expected': exp if exp != 'Add' else 'none', 'got': 'Add'}))
        diverged = True
        break

    truncated = False
    if not diverged:
        if in_interval:
            reason_until = wire_calls[trans[p][0]]['t'] if want(p) == 'Remove' else float('inf')
            close_interval(reason_until)
        if p < len(trans):
            idx, kind = trans[p]
            free = worker_free_at(last_attempt_any, lat_max) if last_attempt_any is not None else float('-inf')
            due = max(wire_calls[idx]['t'], free) + lat_max + EPS
            if due < cutoff - EPS:
                violations.append(('C15.wire_sequence', {'expected': kind, 'got': 'end'}))
            else:
                truncated = True

    # ---- quiescent flags / state
    ok_flags = acceptable_final_flags(calls, loss)
    if final_flags is not None:
        got = frozenset(final_flags)
        if got not in ok_flags:
            exp = ok_flags[0]
            kind = ('missing_flags' if got < exp else 'extra_flags' if got > exp else 'different_flags')
            violations.append(('C15.final_flags', {'kind': kind, 'expected': sorted(exp), 'got': sorted(got)}))
    if final_state is not None:
        if loss is None:
            # judged only when the wire history was accepted (a divergence is reported as such)
            if not diverged:
                flags = ok_flags[0]
                confirmed = in_interval and last_attempt is not None and last_attempt['behaviour'] == 'exists'
                should = bool(flags) and confirmed
                if should != (final_state == 'TRACKED'):
                    violations.append(('C15.final_state', {
                        'expected': 'TRACKED' if should else 'not TRACKED', 'got': final_state,
                        'flags_empty': not flags,
                        'last_attempt': last_attempt['behaviour'] if last_attempt else None}))
        elif loss.get('client_lo') is not None:
            if not co and not after:
                if final_state != 'UNTRACKED':
                    violations.append(('C15.after_loss', {'what': 'state', 'got': final_state}))
            elif final_state == 'TRACKED':
                violations.append(('C15.final_state', {'expected': 'not TRACKED', 'got': final_state,
                                                       'after_loss': True}))
    # ---- nothing happens after the loss for a user nobody touched since
    if loss is not None and loss.get('client_hi') is not None and not co and not after:
        for (t, state) in events:
            if t > loss['client_hi'] + EPS and state != 'UNTRACKED':
                violations.append(('C15.after_loss', {'what': 'activity', 'state': state}))
                break

    return {
        'violations': violations, 'word': [f['kind'] for f in frames], 'expected': expected_word,
        'retries': retries, 'truncated': truncated, 'flags': ok_flags,
    }
