"""B.1 - the documented transfer state graph (C03, C17), as data.

Transcribed ONCE, by hand, from the per-state classes of ``aioslsk/transfer/state.py`` at the
pinned commit, cross-checked against ``docs/source/USAGE.rst`` ("Managing Transfer States",
"Possible States") and the docstring of ``TransferManager.queue``.  It is data in /verif: an
edit of ``state.py`` cannot move the oracle.  States and operations are *names* (the ``.name``
of ``TransferState.State`` members / the method names of ``TransferState``); nothing of aioslsk
is imported here.

What the documents say (they contain no drawn graph; the graph is the per-state classes):
  USAGE.rst   paused -> queue resumes; aborted -> queue restarts; complete (download) -> queue
              re-downloads; failed -> queue retries; INCOMPLETE "only applicable for downloads ...
              will be re-attempted"; ABORTED carries ``abort_reason``, FAILED ``fail_reason``.
  manager.py  ``queue`` "can be called on downloads in" ABORTED, PAUSED, COMPLETE, INCOMPLETE, FAILED.
All of these are edges below.  VIRGIN is not mentioned by the documents (it is the state of a
transfer between ``add()`` and the first ``queue()``/``pause()``).
"""
from __future__ import annotations

DOWNLOAD = 'download'
UPLOAD = 'upload'
DIRECTIONS = (DOWNLOAD, UPLOAD)

STATES = ('VIRGIN', 'QUEUED', 'INITIALIZING', 'INCOMPLETE', 'DOWNLOADING', 'UPLOADING',
          'COMPLETE', 'FAILED', 'ABORTED', 'PAUSED')

OPS = ('queue', 'pause', 'abort', 'fail', 'complete', 'incomplete', 'initialize', 'start_transferring')

# target state of an operation when it is accepted; 'TRANSFERRING' is resolved by direction
TARGET = {
    'queue': 'QUEUED',
    'pause': 'PAUSED',
    'abort': 'ABORTED',
    'fail': 'FAILED',
    'complete': 'COMPLETE',
    'incomplete': 'INCOMPLETE',
    'initialize': 'INITIALIZING',
    'start_transferring': 'TRANSFERRING',
}

TRANSFERRING = {DOWNLOAD: 'DOWNLOADING', UPLOAD: 'UPLOADING'}

# state -> operations that are accepted in it (everything else is refused)
ACCEPTED = {
    'VIRGIN': ('queue', 'pause'),
    'QUEUED': ('initialize', 'fail', 'abort', 'pause'),
    'INITIALIZING': ('abort', 'pause', 'queue', 'fail', 'start_transferring'),
    'DOWNLOADING': ('fail', 'complete', 'abort', 'pause', 'incomplete'),
    'UPLOADING': ('fail', 'complete', 'abort', 'pause'),
    'COMPLETE': ('queue',),
    'INCOMPLETE': ('fail', 'queue', 'initialize', 'abort', 'pause'),
    'FAILED': ('queue',),
    'PAUSED': ('queue', 'abort', 'fail'),
    'ABORTED': ('queue',),
}

# states a transfer of the given direction can never be in
FOREIGN = {DOWNLOAD: ('UPLOADING',), UPLOAD: ('DOWNLOADING',)}

# states in which a transfer is "in progress" (C17: none of them survives a restart)
IN_PROGRESS = ('INITIALIZING', 'DOWNLOADING', 'UPLOADING')


def target(op: str, direction: str) -> str:
    t = TARGET[op]
    return TRANSFERRING[direction] if t == 'TRANSFERRING' else t


def edges(direction: str) -> dict:
    """{state: {op: new state}} for one direction."""
    out = {}
    for state, ops in ACCEPTED.items():
        if state in FOREIGN[direction]:
            continue
        out[state] = {op: target(op, direction) for op in ops}
    return out


EDGES = {d: edges(d) for d in DIRECTIONS}


def accepted(state: str, op: str, direction: str) -> bool:
    return op in EDGES[direction].get(state, {})


def legal(old: str, new: str, direction: str) -> bool:
    """is (old -> new) an edge of the graph for a transfer of this direction?"""
    return new in EDGES[direction].get(old, {}).values()


def why_illegal(old: str, new: str, direction: str):
    """None if legal, else a short class of the defect (narrow fact for violation records)."""
    if old in FOREIGN[direction] or new in FOREIGN[direction]:
        return 'wrong_direction'
    if old not in ACCEPTED or new not in ACCEPTED:
        return 'unknown_state'
    if legal(old, new, direction):
        return None
    return 'not_an_edge'


def routes(direction: str, goal: str, max_len: int = 5) -> list:
    """Every loop-free operation sequence of at most ``max_len`` steps that leads from VIRGIN to
    ``goal`` (shortest first, then in table order: deterministic)."""
    graph = EDGES[direction]
    out = []

    def walk(state, path, seen):
        if state == goal:
            out.append(list(path))
            return
        if len(path) >= max_len:
            return
        for op, new in graph.get(state, {}).items():
            if new in seen:
                continue
            path.append(op)
            walk(new, path, seen | {new})
            path.pop()

    walk('VIRGIN', [], {'VIRGIN'})
    out.sort(key=len)
    return out


def reachable(direction: str) -> tuple:
    """States reachable from VIRGIN through accepted operations."""
    return tuple(s for s in STATES if s not in FOREIGN[direction] and routes(direction, s, max_len=6))


# ----------------------------------------------------------------------------- C17

def after_restart(state: str, filesize, bytes_transfered) -> str:
    """State a persisted transfer has after being loaded by a new process (C17 statement):
    initialising -> queued again; transferring -> COMPLETE iff all bytes had arrived, else
    INCOMPLETE; every other state is kept."""
    if state == 'INITIALIZING':
        return 'QUEUED'
    if state in ('DOWNLOADING', 'UPLOADING'):
        return 'COMPLETE' if filesize == bytes_transfered else 'INCOMPLETE'
    return state
