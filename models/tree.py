"""Reference model of the distributed tree (DESIGN.md B.7), used by C13 and C14.

Written from the wording of properties C13/C14, ``docs/source/DESIGN.rst`` ("Distributed
Network") and ``docs/source/SOULSEEK.rst`` ("Distributed Flows", "Max children",
"Searches on the distributed network", "Delivering Search Results").  It shares no code with
``aioslsk.distributed`` / ``aioslsk.search``.

Pieces
------
* ``Heard``      - what the listener of one distributed connection knows about the branch
                   position of the peer at the other end, folded from the
                   ``DistributedBranchLevel`` / ``DistributedBranchRoot`` frames it received.
* ``told``       - the strict (sequential) reading of the frames *we* sent to a child or
                   the server: what they were last told.
* ``derived``    - the position a client has to advertise: (parent level + 1, parent root)
                   with a parent, (0, own name, searching for a parent) without.
* ``Admission``  - child acceptance and child limit over time, from the values the server
                   sent (``ParentMinSpeed``, ``ParentSpeedRatio``) and the own
                   ``GetUserStats`` answers, with the documented formula.
* ``fanout`` / ``reply_expectation`` - C14: who has to get a forwarded search request and
                   what the answer to the asker has to contain.

Reading of the documents where they leave a choice
--------------------------------------------------
* *Level 0 implies the root.*  SOULSEEK.rst: the branch root is sent "optionally, if the
  branch level is non-zero"; a peer at level 0 is the root of its branch.  A level-0
  announcement therefore names the sender as root.  When the same peer also named another
  root explicitly (contradictory input), either reading is accepted for what was *heard*
  (``Heard.roots``); for what we *told* the reading is sequential: the later frame wins
  (``told``), because a client that sends "level 0" and then "root X" did tell X.
* *Limit.*  The limit is recomputed whenever an own ``GetUserStats`` answer arrives, from
  the ``ParentMinSpeed`` / ``ParentSpeedRatio`` values known at that moment (defaults 1
  and 50 while the server has not sent them): acceptance is on iff
  ``avg_speed >= min_speed * 1024``, the limit is ``floor(avg_speed / (ratio / 10 * 1024))``.
  Integer arithmetic is used: ``avg_speed * 10 // (ratio * 1024)``.
* *Same virtual instant.*  Values that change in the virtual instant of an admission may
  or may not have been in effect: the admission is acceptable if any value in effect right
  before or set during that instant allows it.
"""
from __future__ import annotations

from typing import Iterable, Optional

DEFAULT_MIN_SPEED = 1
DEFAULT_SPEED_RATIO = 50
EPS = 5e-10


# ----------------------------------------------------------------------------- position

class Heard:
    """Branch values of the peer ``sender`` as announced on one connection."""

    def __init__(self, sender: str):
        self.sender = sender
        self.level: Optional[int] = None
        self.explicit_root: Optional[str] = None     # last root named in a BranchRoot frame
        self.sequential_root: Optional[str] = None   # frames folded in order, level 0 naming the sender
        self.count_level = 0
        self.count_root = 0
        self.root_at: Optional[float] = None

    PAIR_WINDOW = 1.0     # a root frame and a level-0 frame further apart than this are two announcements, not one pair

    def level_msg(self, level: int, now: Optional[float] = None):
        self.level = level
        self.count_level += 1
        if level == 0:
            self.sequential_root = self.sender
            if now is not None and self.root_at is not None and now - self.root_at > self.PAIR_WINDOW:
                # "level 0" long after a root was named is a new announcement (the peer became a branch root): the
                # root named earlier is superseded, not contradicted
                self.explicit_root = None

    def root_msg(self, root: str, now: Optional[float] = None):
        self.explicit_root = root
        self.sequential_root = root
        self.count_root += 1
        self.root_at = now

    def roots(self) -> set:
        """Acceptable readings of the peer's branch root (empty: not known yet): the frames
        read in order, the last root named explicitly, and the sender while it is at level 0."""
        out = {self.sequential_root, self.explicit_root} - {None}
        if self.level == 0:
            out.add(self.sender)
        return out

    def complete(self) -> bool:
        return self.level is not None and bool(self.roots())

    def ambiguous(self) -> bool:
        return len(self.roots()) > 1


def derived(own: str, parent: Optional[Heard]) -> dict:
    """Position to advertise.  ``{'level': int, 'roots': set, 'search': bool}``;
    ``None`` when the parent's own position is not known (nothing can be derived)."""
    if parent is None:
        return {'level': 0, 'roots': {own}, 'search': True}
    if not parent.complete():
        return None
    return {'level': parent.level + 1, 'roots': set(parent.roots()), 'search': False}


def told(frames: Iterable[tuple], teller: str) -> dict:
    """Strict sequential reading of ``[('level', n) | ('root', name), ...]`` sent by
    ``teller``: the position the receiver was last told.  A level-0 frame names the teller
    as root ("a child that got level 0 without a root is read as root = our name")."""
    level = None
    root = None
    for kind, value in frames:
        if kind == 'level':
            level = value
            if value == 0:
                root = teller
        elif kind == 'root':
            root = value
    return {'level': level, 'root': root}


# ----------------------------------------------------------------------------- admission

def accepts_children(avg_speed: int, min_speed: int) -> bool:
    return avg_speed >= min_speed * 1024


def max_children(avg_speed: int, ratio: int) -> int:
    """floor(avg_speed / ((ratio / 10) * 1024)) in integer arithmetic."""
    if ratio <= 0:
        raise ValueError('ratio must be positive')
    return (avg_speed * 10) // (ratio * 1024)


class Admission:
    """Time line of (acceptance, child limit) as the documents define it."""

    def __init__(self):
        self.min_speed: Optional[int] = None
        self.ratio: Optional[int] = None
        self.timeline: list[tuple] = []      # (t, accept, limit, speed, min_speed, ratio)

    def on_min_speed(self, t: float, value: int):
        self.min_speed = value

    def on_ratio(self, t: float, value: int):
        self.ratio = value

    def on_session_end(self, t: float):
        """The values "the server sent after logon" belong to the session."""
        self.min_speed = None
        self.ratio = None

    def on_own_stats(self, t: float, avg_speed: int):
        min_speed = DEFAULT_MIN_SPEED if self.min_speed is None else self.min_speed
        ratio = DEFAULT_SPEED_RATIO if self.ratio is None else self.ratio
        self.timeline.append((t, accepts_children(avg_speed, min_speed), max_children(avg_speed, ratio),
                              avg_speed, min_speed, ratio))

    def in_effect(self, t: float) -> list[tuple]:
        """Entries that may have been in effect in the virtual instant ``t``: the last one
        set strictly before it and all set during it."""
        before = [e for e in self.timeline if e[0] < t - EPS]
        during = [e for e in self.timeline if abs(e[0] - t) <= EPS]
        return before[-1:] + during


def values_in_effect(log: Iterable[tuple], t: float) -> list:
    """For a log ``[(t, value), ...]`` in time order: last value before instant ``t`` plus
    every value logged during it."""
    log = list(log)
    before = [v for (tt, v) in log if tt < t - EPS]
    during = [v for (tt, v) in log if abs(tt - t) <= EPS]
    return before[-1:] + during


def judge_admission(t: float, count_before: int, accept_log: Iterable[tuple], admission: Admission) -> Optional[dict]:
    """``None`` if admitting a child at instant ``t`` with ``count_before`` children was
    allowed (or cannot be judged yet), else narrow facts.

    ``accept_log``: ``[(t, bool), ...]`` the AcceptChildren values the client sent."""
    accept_log = list(accept_log)
    if not any(tt < t - EPS for (tt, _) in accept_log) or not any(e[0] < t - EPS for e in admission.timeline):
        return None          # neither value had been announced by anyone before this instant
    accepts = values_in_effect(accept_log, t)
    limits = admission.in_effect(t)
    if not any(accepts):
        return {'reason': 'acceptance_off', 'children_before': count_before}
    if not any(count_before < e[2] for e in limits):
        return {'reason': 'limit_reached', 'children_before': count_before, 'limit': limits[-1][2]}
    return None


# ----------------------------------------------------------------------------- C14

def is_own_request(request_user: str, own: str) -> bool:
    return request_user == own


def fanout(request_user: str, own: str, stable_children: Iterable[str], unstable_children: Iterable[str] = ()):
    """``(must, may)``: connections that have to get the request exactly once, and
    connections whose membership changed around the request (0 or 1 copies)."""
    if is_own_request(request_user, own):
        return [], []
    return list(stable_children), list(unstable_children)


def reply_expectation(index, query: str, asker: str, own: str, friends: Iterable[str] = ()):
    """``None`` if no reply may be sent, else ``(visible_paths, locked_paths)`` as sets of
    absolute local paths (``index``: ``models.shares.ShareIndexModel``)."""
    if is_own_request(asker, own):
        return None
    hits = index.reference_matches(query)
    visible = {f for f in hits if not index.locked_for(f, asker, friends)}
    locked = {f for f in hits if index.locked_for(f, asker, friends)}
    if not visible and not locked:
        return None
    return visible, locked
