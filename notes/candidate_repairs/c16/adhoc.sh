#!/bin/sh
# usage: adhoc.sh NAME FILE 'old' 'new'
name=$1; file=$2
rm -rf /dev/shm/c16-adhoc-$name; cp -r /dev/shm/c16-fix /dev/shm/c16-adhoc-$name
OLD="$3" NEW="$4" /venv/bin/python - "$name" "$file" <<'PY'
import sys, os
name, file = sys.argv[1:3]
p = f"/dev/shm/c16-adhoc-{name}/{file}"
s = open(p).read(); old = os.environ['OLD'].encode().decode('unicode_escape'); new = os.environ['NEW'].encode().decode('unicode_escape')
assert s.count(old) == 1, s.count(old)
open(p, 'w').write(s.replace(old, new))
PY
cd /verif && VERIF_LIST=1 VERIF_REPO=/dev/shm/c16-adhoc-$name bin/check C16 --tier quick --budget 5 --no-evidence --no-shrink > /tmp/c16/adhoc-$name.out 2>&1
echo "ADHOC $name exit=$?"
grep UNKNOWN /tmp/c16/adhoc-$name.out | cut -c1-180 | sort | uniq -c | sort -rn | head -4
rm -rf /dev/shm/c16-adhoc-$name /verif/replays/tmp/*C16* 2>/dev/null
