import sys, json, os
sys.path.insert(0, '/verif')
os.environ.setdefault('PYTHONHASHSEED', '0')
from sim import seams
seams.install()
import logging
from sim.world import World
from checks import c16

def run(plan, verbose=True, loglevel=logging.WARNING):
    plan = dict(plan); plan.setdefault('_key', 'dbg')
    world = World(plan, 'C16')
    seams.LOGS.keep_level = loglevel
    logging.getLogger('aioslsk').setLevel(loglevel)
    try:
        res = c16._run(world, plan)
        if verbose:
            for ev in world.trace_events:
                if ev[1] in ('ev',) and not os.environ.get('EV'): continue
                print('  T', ev)
            for r in seams.LOGS.records:
                print('  L', round(r[0],4), r[1], r[2].replace('aioslsk.',''), r[3][:160], r[4])
        for v in res['violations']:
            print('VIOL', v['invariant'], json.dumps(v['facts']), v['at'])
        print('probes', res['probes'])
        print('fired', res['fired'], 'sim_time', res['sim_time'])
        return res
    finally:
        world.close()

if __name__ == '__main__':
    arg = sys.argv[1]
    if arg.endswith('.json'):
        rec = json.load(open(arg)); plan = rec.get('plan', rec)
    elif arg == 'corpus':
        plan = c16.corpus('quick')[int(sys.argv[2])]
    else:
        plan = eval(arg)
    print(json.dumps({k: v for k, v in plan.items() if not k.startswith('_')}))
    run(plan, verbose='-q' not in sys.argv, loglevel=logging.DEBUG if '-d' in sys.argv else logging.WARNING)
