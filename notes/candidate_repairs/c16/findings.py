import sys, json, os
sys.path.insert(0, '/verif')
from sim import seams
seams.install()
from checks import c16
from sim.runner import run_one, vkey
P = c16._plan
PLAIN = c16.PLAIN
plans = {
 'F21-missing': P(dict(PLAIN, favorites=['r1'], auto_join=True)),
 'F21-extra': P(dict(PLAIN, favorites=['r1'], auto_join=False)),
 'F22a-watchdog': P(dict(PLAIN, reconnect=True, timeout=3), action={'kind': 'loss', 'how': 'rst'}, stop_after=1.0),
 'F22a-login-rst': P(dict(PLAIN, reconnect=True, timeout=3), login='rst', action={'kind': 'stop'}, delay=1.0),
 'F22b-parent-blackhole': P(PLAIN, action={'kind': 'stop'}, pending=['parent_blackhole'], delay=1.0),
 'F22b-parent-slow': P(PLAIN, action={'kind': 'stop'}, pending=['parent_slow'], delay=1.0),
 'N1-search-timer': P(PLAIN, action={'kind': 'stop'}, pending=['search'], delay=1.0),
 'N2-scan-task': dict(P(dict(PLAIN, shares=[['song.txt']]), state='before_login', action={'kind': 'stop'}, delay=0.0), exec={'delay_ms': [20, 400]}),
 'N3-failed-login-no-reader': P(dict(PLAIN, reconnect=True, timeout=1), login='reject', action={'kind': 'loss', 'how': 'rst'}),
 'N4-loss-during-dispatch': P(dict(PLAIN, friends=[{'name': 'f1', 'beh': 'exists'}], reconnect=True, timeout=1), state='burst', trigger='write', index=1, action={'kind': 'loss', 'how': 'reset'}),
 'N4-stop-during-dispatch': P(PLAIN, state='burst', trigger='write', index=1, action={'kind': 'stop'}),
}
for name, plan in plans.items():
    res = run_one(c16, plan)
    print('==', name)
    print('   plan:', json.dumps({k: v for k, v in plan.items() if not k.startswith('_')}))
    for v in res['violations']:
        print('   VIOL', vkey(v))
    if res.get('harness_error'): print(res['harness_error'], res.get('traceback'))
