#!/bin/sh
# usage: mut.sh MUTANT_ID [budget]   -- applies the mutant to a copy of the repaired scratch tree
mid=$1; budget=${2:-10}
rm -rf /dev/shm/c16-mut-$mid; cp -r /dev/shm/c16-fix /dev/shm/c16-mut-$mid
/venv/bin/python - "$mid" <<'PY'
import json, sys
mid = sys.argv[1]
rec = json.load(open(f'/verif/mutants/{mid}.json'))
p = f"/dev/shm/c16-mut-{mid}/{rec['file']}"
s = open(p).read(); assert s.count(rec['old']) == 1
open(p, 'w').write(s.replace(rec['old'], rec['new']))
PY
cd /verif && VERIF_LIST=1 VERIF_REPO=/dev/shm/c16-mut-$mid bin/check C16 --tier quick --budget $budget --no-evidence --no-shrink > /tmp/c16/mut-$mid.out 2>&1
echo "MUTANT $mid exit=$?"
grep UNKNOWN /tmp/c16/mut-$mid.out | cut -c1-200 | sort | uniq -c | sort -rn | head -8
tail -1 /tmp/c16/mut-$mid.out | cut -c1-250
rm -rf /dev/shm/c16-mut-$mid /verif/replays/tmp/*C16* 2>/dev/null
