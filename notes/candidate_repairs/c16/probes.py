import sys, json, os, collections
sys.path.insert(0, '/verif')
from sim import seams
seams.install()
from checks import c16
from sim.runner import run_one, vkey
import multiprocessing as mp
def work(plan):
    res = run_one(c16, plan)
    return res['probes'], res['fired'], res.get('harness_error'), res['wall']
if __name__ == '__main__':
    from sim.prf import derive_rng
    n = int(sys.argv[1])
    plans = [c16.generate(derive_rng(0, 'C16', i), i, 'quick') for i in range(n)]
    if len(sys.argv) > 2: plans = c16.corpus('quick')
    with mp.get_context('fork').Pool(16) as pool:
        out = pool.map(work, plans, chunksize=8)
    P = collections.Counter(); F = collections.Counter()
    for p, f, he, w in out:
        for k in p: P[k] += 1
        for k in f: F[k] += 1
        if he: print('HARNESS', he)
    print('runs', len(out), 'max wall', max(o[3] for o in out), 'avg', sum(o[3] for o in out)/len(out))
    for k, v in sorted(P.items()): print('  probe', k, v)
    for k, v in sorted(F.items()): print('  fired', k, v)
