import sys, json, os
sys.path.insert(0, '/verif')
from sim import seams
seams.install()
from checks import c16
from sim.runner import run_one, vkey
import multiprocessing as mp

def work(args):
    i, plan = args
    res = run_one(c16, plan)
    return i, [vkey(v) for v in res['violations']], res.get('harness_error')

if __name__ == '__main__':
    plans = c16.corpus('quick')
    if len(sys.argv) > 1 and sys.argv[1] == 'gen':
        from sim.prf import derive_rng
        n = int(sys.argv[2])
        plans = [c16.generate(derive_rng(0, 'C16', i), i, 'quick') for i in range(n)]
    with mp.get_context('fork').Pool(16) as pool:
        out = pool.map(work, list(enumerate(plans)), chunksize=4)
    first = {}
    count = {}
    for i, keys, he in out:
        if he: print('HARNESS', i, he)
        for k in keys:
            first.setdefault(k, i); count[k] = count.get(k, 0) + 1
    for k in sorted(first):
        print(first[k], count[k], k[:230])
    json.dump({k: first[k] for k in first}, open('/tmp/c16/first.json', 'w'))
    json.dump(plans, open('/tmp/c16/plans.json', 'w'))
