"""Deterministic simulation harness for aioslsk (see /verif/DESIGN.md)."""
