"""Scripted remote parties: SoulSeek server and peers, built on asyncio streams over
the simulated network (so they experience latency, segmentation and resets too).

Trusted base: frames are encoded/decoded with aioslsk's own message classes.
"""
from __future__ import annotations

import asyncio
import struct
from typing import Callable, Optional

from aioslsk.protocol import obfuscation
from aioslsk.protocol import messages as M
from aioslsk.protocol.primitives import UserStats

from .loop import SimLoop
from .net import Host, Net


# --------------------------------------------------------------------------- framing

async def read_frame(reader: asyncio.StreamReader, obfuscated: bool = False) -> Optional[bytes]:
    """Returns the clear frame (length prefix included) or None on clean EOF."""
    try:
        if obfuscated:
            header = await reader.readexactly(8)
            (length,) = struct.unpack('<I', obfuscation.decode(header))
            body = await reader.readexactly(length)
            return obfuscation.decode(header + body)
        header = await reader.readexactly(4)
        (length,) = struct.unpack('<I', header)
        body = await reader.readexactly(length)
        return header + body
    except asyncio.IncompleteReadError:
        return None
    except (ConnectionError, OSError):
        return None


def encode_frame(message, obfuscated: bool = False, key: Optional[bytes] = None) -> bytes:
    data = message if isinstance(message, (bytes, bytearray)) else message.serialize()
    if obfuscated:
        return obfuscation.encode(bytes(data), key=key or b'\x11\x22\x33\x44')
    return bytes(data)


def safe_decode(fn, frame):
    try:
        return fn(frame)
    except Exception as exc:  # undecodable for the actor: keep the raw bytes
        return ('undecodable', bytes(frame), type(exc).__name__)


# --------------------------------------------------------------------------- server

class ServerSession:
    """One TCP connection accepted by SimServer."""

    def __init__(self, server: 'SimServer', reader, writer):
        self.server = server
        self.reader = reader
        self.writer = writer
        self.username: Optional[str] = None
        self.ip = writer.get_extra_info('peername')[0]
        self.received: list[tuple[float, object]] = []
        self.closed = False
        self.index = 0
        self.listen_port = 0
        self.obfuscated_port = 0

    def send(self, *messages):
        if self.closed or self.writer.is_closing():
            return
        for message in messages:
            self.writer.write(encode_frame(message))

    def close(self):
        self.closed = True
        try:
            self.writer.close()
        except Exception:
            pass

    def abort(self):
        self.closed = True
        self.writer.transport.abort()


class SimServer:
    PORT = 2416

    def __init__(self, loop: SimLoop, net: Net, cfg: Optional[dict] = None, name: str = 'server'):
        self.loop = loop
        self.net = net
        self.cfg = dict(cfg or {})
        self.host: Host = net.add_host(name, ip='10.9.9.9')
        self.sessions: list[ServerSession] = []
        self.by_user: dict[str, ServerSession] = {}
        # scripted peers registered here: name -> SimPeer
        self.peers: dict[str, 'SimPeer'] = {}
        # static address book for names without session / peer object
        self.addresses: dict[str, tuple[str, int, int]] = {}
        self.users: dict[str, dict] = {}       # name -> {status, stats, privileged, exists, country}
        self.received: list[tuple[float, str, object]] = []   # (time, session user, message)
        self.handlers: dict[type, Callable] = {}
        self.observers: list[Callable] = []    # f(session, message) after default handling
        self.add_user_script: dict[str, list[str]] = {}       # per user: behaviour per attempt
        self.add_user_default = self.cfg.get('add_user_default', 'exists')
        self.login_mode = self.cfg.get('login', 'accept')
        self.reply_delay = self.cfg.get('reply_delay', 0.0)
        self._server = None
        self.tasks: list[asyncio.Task] = []
        self.silent: set[type] = set()     # request classes the server does not answer
        self.excluded_phrases: list[str] = list(self.cfg.get('excluded_phrases', []))
        self.privileged: list[str] = list(self.cfg.get('privileged', []))
        self.wishlist_interval = self.cfg.get('wishlist_interval', 720)
        self.parent_min_speed = self.cfg.get('parent_min_speed', 1)
        self.parent_speed_ratio = self.cfg.get('parent_speed_ratio', 50)
        self.room_list = self.cfg.get('room_list')
        self.burst_omit: set[str] = set(self.cfg.get('burst_omit', []))
        self.connect_to_peer_mode = self.cfg.get('connect_to_peer', 'relay')  # relay | drop | cannot

    # lifecycle ---------------------------------------------------------------
    def start(self):
        self.tasks.append(self.loop.spawn(self.host, self._serve(), name='simserver'))

    async def _serve(self):
        self._server = await asyncio.start_server(self._accept, '0.0.0.0', self.PORT)

    def stop_listening(self):
        if self._server is not None:
            self._server.close()

    async def _accept(self, reader, writer):
        session = ServerSession(self, reader, writer)
        session.index = len(self.sessions)
        self.sessions.append(session)
        try:
            while True:
                frame = await read_frame(reader)
                if frame is None:
                    break
                message = safe_decode(M.ServerMessage.deserialize_request, frame)
                self.received.append((self.loop.time(), session.username, message))
                session.received.append((self.loop.time(), message))
                await self._dispatch(session, message)
        finally:
            session.closed = True
            if session.username and self.by_user.get(session.username) is session:
                del self.by_user[session.username]
            try:
                writer.close()
            except Exception:
                pass

    async def _dispatch(self, session: ServerSession, message):
        cls = message.__class__
        handler = self.handlers.get(cls)
        if handler is not None:
            res = handler(session, message)
            if asyncio.iscoroutine(res):
                res = await res
            if res is not False:
                for obs in self.observers:
                    obs(session, message)
                return
        if cls not in self.silent:
            default = self._DEFAULTS.get(cls)
            if default is not None:
                if self.reply_delay:
                    await asyncio.sleep(self.reply_delay)
                res = default(self, session, message)
                if asyncio.iscoroutine(res):
                    await res
        for obs in self.observers:
            obs(session, message)

    # queries for oracles ------------------------------------------------------
    def frames(self, cls=None, user=None, since: float = 0.0):
        out = []
        for t, u, m in self.received:
            if t < since:
                continue
            if cls is not None and not isinstance(m, cls):
                continue
            if user is not None and u != user:
                continue
            out.append((t, m))
        return out

    def session_of(self, username: str) -> Optional[ServerSession]:
        return self.by_user.get(username)

    def send_to(self, username: str, *messages):
        session = self.by_user.get(username)
        if session is not None:
            session.send(*messages)
            return True
        return False

    # default behaviour ----------------------------------------------------------
    def user_info(self, name: str) -> dict:
        info = self.users.get(name)
        if info is None:
            info = {}
        return info

    def address_of(self, name: str) -> tuple[str, int, int]:
        if name in self.addresses:
            return self.addresses[name]
        peer = self.peers.get(name)
        if peer is not None:
            return (peer.host.ip, peer.port if peer.listening_clear else 0,
                    peer.obfuscated_port if peer.listening_obfuscated else 0)
        session = self.by_user.get(name)
        if session is not None:
            return (session.ip, session.listen_port, session.obfuscated_port)
        return ('0.0.0.0', 0, 0)

    def _on_login(self, session, message):
        mode = self.login_mode
        if callable(mode):
            mode = mode(session, message)
        if mode == 'silence':
            return
        if mode == 'eof':
            session.close()
            return
        if mode == 'rst':
            session.abort()
            return
        if mode == 'garbled':
            session.writer.write(struct.pack('<II', 9, 1) + b'\xff\xff\xff\xff\x01')
            return
        if mode == 'wrong_message':
            session.send(M.Ping.Response())
            return
        if mode == 'reject':
            session.send(M.Login.Response(success=False, reason='INVALIDPASS'))
            return
        old = self.by_user.get(message.username)
        if old is not None and old is not session:
            old.send(M.Kicked.Response())
            old.close()
        session.username = message.username
        self.by_user[message.username] = session
        info = self.user_info(message.username)
        session.send(M.Login.Response(
            success=True, greeting='', ip=session.ip,
            md5hash='0' * 32, privileged=bool(info.get('privileged', False))))
        burst = []
        if 'room_list' not in self.burst_omit:
            burst.append(self.make_room_list())
        if 'parent_min_speed' not in self.burst_omit:
            burst.append(M.ParentMinSpeed.Response(self.parent_min_speed))
        if 'parent_speed_ratio' not in self.burst_omit:
            burst.append(M.ParentSpeedRatio.Response(self.parent_speed_ratio))
        if 'wishlist_interval' not in self.burst_omit:
            burst.append(M.WishlistInterval.Response(self.wishlist_interval))
        if 'privileged_users' not in self.burst_omit:
            burst.append(M.PrivilegedUsers.Response(list(self.privileged)))
        if 'excluded_phrases' not in self.burst_omit:
            burst.append(M.ExcludedSearchPhrases.Response(list(self.excluded_phrases)))
        session.send(*burst)

    def make_room_list(self):
        rl = self.room_list or {}
        return M.RoomList.Response(
            rooms=list(rl.get('rooms', [])),
            rooms_user_count=list(rl.get('rooms_user_count', [])),
            rooms_private_owned=list(rl.get('rooms_private_owned', [])),
            rooms_private_owned_user_count=list(rl.get('rooms_private_owned_user_count', [])),
            rooms_private=list(rl.get('rooms_private', [])),
            rooms_private_user_count=list(rl.get('rooms_private_user_count', [])),
            rooms_private_operated=list(rl.get('rooms_private_operated', [])))

    def _on_set_listen_port(self, session, message):
        session.listen_port = message.port
        session.obfuscated_port = message.obfuscated_port or 0

    def _on_check_privileges(self, session, message):
        session.send(M.CheckPrivileges.Response(self.user_info(session.username).get('time_left', 0)))

    def make_stats(self, name: str) -> UserStats:
        st = self.user_info(name).get('stats', (1000, 10, 5, 2))
        return UserStats(*st)

    def _on_add_user(self, session, message):
        name = message.username
        script = self.add_user_script.get(name)
        behaviour = script.pop(0) if script else self.add_user_default
        info = self.user_info(name)
        if behaviour == 'silent':
            return
        if behaviour == 'notexists' or info.get('exists') is False:
            session.send(M.AddUser.Response(name, exists=False))
            return
        session.send(M.AddUser.Response(
            name, exists=True, status=info.get('status', 2),
            user_stats=self.make_stats(name), country_code=info.get('country', 'BE')))

    def _on_get_user_status(self, session, message):
        info = self.user_info(message.username)
        session.send(M.GetUserStatus.Response(
            message.username, info.get('status', 2), bool(info.get('privileged', False))))

    def _on_get_user_stats(self, session, message):
        session.send(M.GetUserStats.Response(message.username, self.make_stats(message.username)))

    def _on_get_peer_address(self, session, message):
        ip, port, obf = self.address_of(message.username)
        session.send(M.GetPeerAddress.Response(
            message.username, ip, port,
            obfuscated_port_amount=1 if obf else 0, obfuscated_port=obf))

    def _on_connect_to_peer(self, session, message):
        mode = self.connect_to_peer_mode
        if callable(mode):
            mode = mode(session, message)
        if mode == 'drop':
            return
        if mode == 'cannot':
            session.send(M.CannotConnect.Response(message.ticket))
            return
        target = message.username
        ip, port, obf = self.address_of(session.username)
        relay = M.ConnectToPeer.Response(
            username=session.username, typ=message.typ, ip=ip, port=port, ticket=message.ticket,
            privileged=False, obfuscated_port_amount=1 if obf else 0, obfuscated_port=obf)
        peer = self.peers.get(target)
        if peer is not None:
            peer.on_connect_to_peer(relay)
            return
        tsession = self.by_user.get(target)
        if tsession is not None:
            tsession.send(relay)
            return
        session.send(M.CannotConnect.Response(message.ticket))

    def _on_cannot_connect(self, session, message):
        # relay to the user that asked for the connection
        target = message.username
        if target is None:
            return
        peer = self.peers.get(target)
        if peer is not None:
            peer.on_cannot_connect(message.ticket)
            return
        tsession = self.by_user.get(target)
        if tsession is not None:
            tsession.send(M.CannotConnect.Response(message.ticket))

    def _on_ping(self, session, message):
        pass

    def _on_room_list(self, session, message):
        session.send(self.make_room_list())

    _DEFAULTS = {
        M.Login.Request: _on_login,
        M.SetListenPort.Request: _on_set_listen_port,
        M.CheckPrivileges.Request: _on_check_privileges,
        M.AddUser.Request: _on_add_user,
        M.GetUserStatus.Request: _on_get_user_status,
        M.GetUserStats.Request: _on_get_user_stats,
        M.GetPeerAddress.Request: _on_get_peer_address,
        M.ConnectToPeer.Request: _on_connect_to_peer,
        M.CannotConnect.Request: _on_cannot_connect,
        M.Ping.Request: _on_ping,
        M.RoomList.Request: _on_room_list,
    }


# --------------------------------------------------------------------------- peers

class PeerLink:
    """One connection of a scripted peer (either direction)."""

    def __init__(self, peer: 'SimPeer', reader, writer, obfuscated: bool, incoming: bool):
        self.peer = peer
        self.reader = reader
        self.writer = writer
        self.obfuscated = obfuscated
        self.incoming = incoming           # accepted by the peer
        self.typ: Optional[str] = None
        self.remote_user: Optional[str] = None
        self.init = None                   # first frame (PeerInit / PeerPierceFirewall)
        self.frames: list[tuple[float, object]] = []
        self.raw = bytearray()             # raw bytes read in file mode
        self.eof = False
        self.lost: Optional[BaseException] = None
        self.index = 0
        self.opened_at = peer.loop.time()

    @property
    def loop(self):
        return self.peer.loop

    def send(self, message, obfuscated: Optional[bool] = None):
        if self.writer.is_closing():
            return
        obf = self.obfuscated if obfuscated is None else obfuscated
        self.writer.write(encode_frame(message, obf))

    def send_raw(self, data: bytes):
        if self.writer.is_closing():
            return
        self.writer.write(data)

    async def recv(self, family: Optional[str] = None):
        """Next frame decoded for this link's family; None on EOF/reset."""
        frame = await read_frame(self.reader, self.obfuscated)
        if frame is None:
            self.eof = True
            return None
        fam = family or ('init' if self.init is None and self.incoming else self.typ)
        if fam == 'init':
            msg = safe_decode(M.PeerInitializationMessage.deserialize_request, frame)
        elif fam == 'D':
            msg = safe_decode(M.DistributedMessage.deserialize_request, frame)
        else:
            msg = safe_decode(M.PeerMessage.deserialize_request, frame)
        self.frames.append((self.loop.time(), msg))
        return msg

    async def recv_init(self):
        msg = await self.recv('init')
        self.init = msg
        if isinstance(msg, M.PeerInit.Request):
            self.typ = msg.typ
            self.remote_user = msg.username
            if self.typ != 'P':
                self.obfuscated = False
        return msg

    async def read_exactly(self, n: int) -> Optional[bytes]:
        try:
            data = await self.reader.readexactly(n)
        except asyncio.IncompleteReadError as exc:
            self.raw.extend(exc.partial)
            self.eof = True
            return None
        except (ConnectionError, OSError) as exc:
            self.lost = exc
            return None
        return data

    async def read_some(self, n: int = 65536) -> Optional[bytes]:
        try:
            data = await self.reader.read(n)
        except (ConnectionError, OSError) as exc:
            self.lost = exc
            return None
        if not data:
            self.eof = True
            return None
        return data

    def close(self):
        try:
            self.writer.close()
        except Exception:
            pass

    def abort(self):
        self.writer.transport.abort()

    def is_open(self):
        return not self.writer.transport._closed


class SimPeer:
    """A scripted SoulSeek peer host: listens on a clear and an obfuscated port,
    records everything, and exposes primitives for role scripts."""

    def __init__(self, loop: SimLoop, net: Net, server: SimServer, name: str,
                 port: int = 50000, obfuscated_port: int = 50001,
                 listening_clear: bool = True, listening_obfuscated: bool = True):
        self.loop = loop
        self.net = net
        self.server = server
        self.name = name
        self.host: Host = net.add_host(name)
        self.port = port
        self.obfuscated_port = obfuscated_port
        self.listening_clear = listening_clear
        self.listening_obfuscated = listening_obfuscated
        self.links: list[PeerLink] = []
        self.accept_handler: Optional[Callable] = None      # coroutine fn(link)
        self.connect_to_peer_handler: Optional[Callable] = None   # fn(relay message)
        self.cannot_connect: list[tuple[float, int]] = []
        self.connect_requests: list[tuple[float, object]] = []
        self.tasks: list[asyncio.Task] = []
        self._servers = []
        server.peers[name] = self

    def start(self):
        self.tasks.append(self.loop.spawn(self.host, self._listen(), name=f'simpeer-{self.name}'))

    async def _listen(self):
        if self.listening_clear:
            self._servers.append(await asyncio.start_server(
                lambda r, w: self._accept(r, w, False), '0.0.0.0', self.port))
        if self.listening_obfuscated:
            self._servers.append(await asyncio.start_server(
                lambda r, w: self._accept(r, w, True), '0.0.0.0', self.obfuscated_port))

    async def _accept(self, reader, writer, obfuscated):
        link = PeerLink(self, reader, writer, obfuscated, incoming=True)
        link.index = len(self.links)
        self.links.append(link)
        if self.accept_handler is not None:
            await self.accept_handler(link)

    def spawn(self, coro, name=None) -> asyncio.Task:
        task = self.loop.spawn(self.host, coro, name=name or f'simpeer-{self.name}-script')
        self.tasks.append(task)
        return task

    def on_connect_to_peer(self, relay):
        self.connect_requests.append((self.loop.time(), relay))
        if self.connect_to_peer_handler is not None:
            res = self.connect_to_peer_handler(relay)
            if asyncio.iscoroutine(res):
                self.spawn(res)

    def on_cannot_connect(self, ticket):
        self.cannot_connect.append((self.loop.time(), ticket))

    async def connect(self, ip: str, port: int, obfuscated: bool = False) -> PeerLink:
        """Open a raw connection to (ip, port); must run inside a task of this peer."""
        reader, writer = await asyncio.open_connection(ip, port)
        link = PeerLink(self, reader, writer, obfuscated, incoming=False)
        link.index = len(self.links)
        self.links.append(link)
        return link

    async def connect_direct(self, ip: str, port: int, typ: str, ticket: int = 0,
                             obfuscated: bool = False) -> PeerLink:
        link = await self.connect(ip, port, obfuscated)
        link.send(M.PeerInit.Request(self.name, typ, ticket))
        link.typ = typ
        if typ != 'P':
            link.obfuscated = False
        return link

    async def connect_pierce(self, ip: str, port: int, ticket: int, typ: str,
                             obfuscated: bool = False) -> PeerLink:
        link = await self.connect(ip, port, obfuscated)
        link.send(M.PeerPierceFirewall.Request(ticket))
        link.typ = typ
        if typ != 'P':
            link.obfuscated = False
        return link

    def stop_listening(self):
        for srv in self._servers:
            srv.close()
