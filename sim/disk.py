"""Inline executor (carries aiofiles and the share scanner) with plan-decided
completion delays and disk fault points.

A submitted job runs on the loop thread at a PRF-chosen virtual instant between
submission and completion; the returned future resolves at completion.  File I/O is
real, against a per-run sandbox on tmpfs.
"""
from __future__ import annotations

import collections
import functools
import os
import shutil
import tempfile

from .loop import NODE
from .prf import Streams


def job_name(func) -> str:
    f = func
    while isinstance(f, functools.partial):
        f = f.func
    name = getattr(f, '__qualname__', None) or getattr(f, '__name__', None) or type(f).__name__
    mod = getattr(f, '__module__', '') or ''
    if mod and mod not in ('builtins', 'io', '_io'):
        short = mod.rsplit('.', 1)[-1]
        return f"{short}.{name}"
    return name


class Disk:
    def __init__(self, loop, streams: Streams, cfg=None):
        self.loop = loop
        loop.disk = self
        self.streams = streams
        self.cfg = dict(cfg or {})
        self.jobs = 0
        self.job_counts = collections.Counter()
        self.fired = collections.Counter()
        # fault rules: list of dicts {match: substring of job name, nth: int (1-based among matches) or None,
        #   action: 'error'|'slow'|callable, errno: int, delay: float}
        self.rules: list[dict] = list(self.cfg.get('rules', []))
        self.hooks: list = []  # callables (name, func, args) -> None / ('error', exc) / ('delay', s) / ('pre', fn)
        self.dead_nodes: set = set()

    def submit(self, loop, func, args):
        node = NODE.get()
        name = job_name(func)
        self.jobs += 1
        self.job_counts[name] += 1
        nth = self.job_counts[name]
        lo, hi = self.cfg.get('delay_ms', (0.0, 2.0))
        delay = self.streams.uniform(f"exec/{name}", lo, hi) / 1000.0
        error = None
        pre = None
        for rule in self.rules:
            if rule['match'] in name and rule.get('nth') in (None, nth):
                action = rule.get('action', 'error')
                if action == 'error':
                    error = OSError(rule.get('errno', 28), os.strerror(rule.get('errno', 28)))
                    self.fired['disk_error'] += 1
                elif action == 'slow':
                    delay = rule.get('delay', 1.0)
                    self.fired['disk_slow'] += 1
        for hook in self.hooks:
            res = hook(name, func, args)
            if res is None:
                continue
            if res[0] == 'error':
                error = res[1]
                self.fired['disk_error'] += 1
            elif res[0] == 'delay':
                delay = res[1]
                self.fired['disk_slow'] += 1
            elif res[0] == 'pre':
                pre = res[1]
        fut = loop.create_future()

        def run():
            if node is not None and node in self.dead_nodes:
                return
            if fut.cancelled():
                # a real pool thread would still run the job
                try:
                    if error is None:
                        func(*args)
                except BaseException:
                    pass
                return
            try:
                if pre is not None:
                    pre()
                if error is not None:
                    raise error
                result = func(*args)
            except BaseException as exc:  # noqa
                if isinstance(exc, (SystemExit, KeyboardInterrupt)):
                    raise
                fut.set_exception(exc)
            else:
                fut.set_result(result)

        if delay > 0:
            loop.call_later(delay, run)
        else:
            loop.call_soon(run)
        return fut


class Sandbox:
    """Per-run directory on tmpfs with a *deterministic* name (path strings end up in
    hash-ordered sets, so a random suffix would leak into iteration order).  A file
    lock serialises the rare case of two processes running the same plan at once."""

    ROOT = '/dev/shm' if os.path.isdir('/dev/shm') else tempfile.gettempdir()

    def __init__(self, key='run'):
        import fcntl
        self.path = os.path.join(self.ROOT, f'vf-{key}')
        self._lock_path = self.path + '.lock'
        while True:
            lock = open(self._lock_path, 'w')
            fcntl.flock(lock, fcntl.LOCK_EX)
            try:
                if os.fstat(lock.fileno()).st_ino == os.stat(self._lock_path).st_ino:
                    break
            except OSError:
                pass
            lock.close()  # the holder before us unlinked it: take a fresh one
        self._lock = lock
        shutil.rmtree(self.path, ignore_errors=True)
        os.makedirs(self.path)

    def sub(self, *parts) -> str:
        p = os.path.join(self.path, *parts)
        os.makedirs(p, exist_ok=True)
        return p

    def cleanup(self):
        shutil.rmtree(self.path, ignore_errors=True)
        try:
            os.unlink(self._lock_path)
        except OSError:
            pass
        try:
            self._lock.close()
        except OSError:
            pass
