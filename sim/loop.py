"""Virtual-time asyncio event loop.

SimLoop keeps the stock ``BaseEventLoop._run_once`` (FIFO ready queue, timers in
deadline order) and replaces only the clock, the selector, the executor and the
socket layer.  Nothing in here draws randomness: every delay is handed in by the
caller (sim.net / sim.disk) from the plan's PRF streams.
"""
from __future__ import annotations

import asyncio
import asyncio.base_events
import contextvars
import itertools
import math
import os
import time as _real_time
import weakref

_HARNESS_ROOT = os.path.dirname(os.path.dirname(os.path.abspath(__file__))) + os.sep

NODE: contextvars.ContextVar = contextvars.ContextVar('sim_node', default=None)

_HASH_COUNTER = itertools.count(1)


def reset_ids():
    global _HASH_COUNTER
    _HASH_COUNTER = itertools.count(1)


def next_hash_id() -> int:
    return next(_HASH_COUNTER)


class SimStall(Exception):
    """Nothing ready and nothing scheduled while the driver still waits."""


class SimBudget(Exception):
    """Iteration / virtual-time / wall-time cap exceeded (harness error)."""


class SimCrash(SystemExit):
    """Raised from a loop callback to kill the simulated process at an exact
    instant; propagates through Handle._run and Task.__step."""


class SimTask(asyncio.Task):
    """Task with an address independent hash (creation counter)."""

    def __init__(self, coro, **kwargs):
        self._sim_hid = next_hash_id()   # before super(): Task.__init__ hashes self
        super().__init__(coro, **kwargs)

    def __hash__(self):
        return self._sim_hid

    def __eq__(self, other):
        return self is other

    @property
    def node(self):
        try:
            return self.get_context().get(NODE)
        except Exception:  # pragma: no cover
            return None


def _task_factory(loop, coro, **kwargs):
    task = SimTask(coro, loop=loop, **kwargs)
    try:
        loop._all_tasks_weak.append(weakref.ref(task))
    except AttributeError:
        pass
    return task


class _FakeSelector:
    def __init__(self, loop: 'SimLoop'):
        self._loop = loop

    def select(self, timeout):
        loop = self._loop
        if timeout is None:
            raise SimStall("nothing ready, nothing scheduled")
        if timeout > 0:
            # stock _run_once already dropped cancelled handles at the head
            when = loop._scheduled[0]._when
            if when > loop._now:
                loop._now = when
        return ()

    def close(self):
        pass


class SimLoop(asyncio.base_events.BaseEventLoop):

    def __init__(self, start_time: float = 1000.0):
        super().__init__()
        self._now = float(start_time)
        self._selector = _FakeSelector(self)
        self.set_task_factory(_task_factory)
        self.iterations = 0
        self.max_iterations = 2_000_000
        self.max_time = float('inf')
        self.wall_deadline = None
        self.monitors: list = []
        self.exc_contexts: list[dict] = []
        self.harness_deaths: list[dict] = []
        self._all_tasks_weak: list = []
        self.net = None  # set by sim.net.Net
        self.disk = None  # set by sim.disk.Disk
        self._in_monitor = False

    # clock ----------------------------------------------------------------
    def time(self):
        return self._now

    # _run_once fires timers with ``when < time() + _clock_resolution``.  A real clock has
    # ~1 ns resolution; here it is a few ulps so that plans can place events 1 ns apart.
    @property
    def _clock_resolution(self):
        return 4.0 * math.ulp(self._now)

    @_clock_resolution.setter
    def _clock_resolution(self, value):
        pass

    # selector plumbing ----------------------------------------------------
    def _process_events(self, event_list):
        pass

    def _write_to_self(self):
        pass

    def _run_once(self):
        super()._run_once()
        self.iterations += 1
        if self.monitors and not self._in_monitor:
            self._in_monitor = True
            try:
                for monitor in self.monitors:
                    monitor()
            finally:
                self._in_monitor = False
        if self.iterations > self.max_iterations:
            raise SimBudget(f"iteration cap {self.max_iterations} exceeded at t={self._now}")
        if self._now > self.max_time:
            raise SimBudget(f"virtual time cap {self.max_time} exceeded")
        if self.wall_deadline is not None and (self.iterations & 0x3ff) == 0:
            if _real_time.monotonic() > self.wall_deadline:
                raise SimBudget("wall time cap exceeded")

    # exception capture (client.start() replaces the handler, so hook here) --
    def call_exception_handler(self, context):
        rec = {
            'message': context.get('message'),
            'exception': repr(context.get('exception')),
            'exc_type': type(context.get('exception')).__name__ if context.get('exception') is not None else None,
            'time': self._now,
        }
        task = context.get('task') or context.get('future')
        if task is not None:
            rec['task'] = getattr(task, 'get_name', lambda: repr(task))()
            rec['node'] = getattr(task, 'node', None)
            coro = getattr(task, 'get_coro', lambda: None)()
            rec['coro'] = getattr(coro, '__qualname__', None)
        self.exc_contexts.append(rec)

    def scan_task_deaths(self):
        """A task that ended with an exception nobody retrieved reaches the exception handler only when the task
        object is freed, which a reference from a connection, a timeout object or a recorded event can postpone beyond
        the end of the run: report those that are still alive here (same record as call_exception_handler).  Tasks
        running harness coroutines (code under /verif) are kept apart."""
        alive = []
        for ref in self._all_tasks_weak:
            task = ref()
            if task is None:
                continue
            if not task.done():
                alive.append(ref)
                continue
            if task.cancelled() or not getattr(task, '_log_traceback', False):
                continue
            exc = getattr(task, '_exception', None)
            if exc is None:
                continue
            task._log_traceback = False
            coro = task.get_coro()
            code = getattr(coro, 'cr_code', None)
            rec = {'message': 'Task exception was never retrieved (task still referenced)', 'exception': repr(exc),
                   'exc_type': type(exc).__name__, 'time': self._now, 'task': task.get_name(),
                   'node': getattr(task, 'node', None), 'coro': getattr(coro, '__qualname__', None)}
            if code is not None and code.co_filename.startswith(_HARNESS_ROOT):
                self.harness_deaths.append(rec)
            else:
                self.exc_contexts.append(rec)
        self._all_tasks_weak = alive

    # executor ---------------------------------------------------------------
    def run_in_executor(self, executor, func, *args):
        if self.disk is None:
            raise RuntimeError("no simulated disk/executor installed")
        return self.disk.submit(self, func, args)

    # sockets ------------------------------------------------------------------
    async def create_connection(self, protocol_factory, host=None, port=None, **kwargs):
        return await self.net.create_connection(self, protocol_factory, host, port, **kwargs)

    async def create_server(self, protocol_factory, host=None, port=None, **kwargs):
        return await self.net.create_server(self, protocol_factory, host, port, **kwargs)

    def _start_serving(self, protocol_factory, sock, sslcontext=None, server=None,
                       backlog=100, ssl_handshake_timeout=None, ssl_shutdown_timeout=None):
        sock._sim_listener.start(protocol_factory, server)

    def _stop_serving(self, sock):
        sock._sim_listener.stop()

    async def getaddrinfo(self, host, port, **kwargs):  # pragma: no cover
        raise RuntimeError("getaddrinfo must not be reached in simulation")

    # helpers ------------------------------------------------------------------
    def spawn(self, node, coro, name=None):
        """Create a task whose context carries ``node`` as the simulated host."""
        ctx = contextvars.copy_context()
        ctx.run(NODE.set, node)
        return self.create_task(coro, name=name, context=ctx)

    def pending_tasks(self, node=None):
        out = []
        for t in asyncio.all_tasks(self):
            if t.done():
                continue
            if node is None or getattr(t, 'node', None) is node:
                out.append(t)
        out.sort(key=hash)
        return out
