"""Simulated TCP under real asyncio streams.

SimTransport pairs are created by ``SimLoop.create_connection`` against listeners
registered by ``SimLoop.create_server``; the stock StreamReader / StreamWriter /
StreamReaderProtocol / base_events.Server run on top unchanged.

Modelled: per-direction FIFO byte streams, latency (base + PRF jitter, monotone per
direction), segmentation / coalescing, back-pressure (pause_writing above a high
water mark while the receiver does not consume), connect outcomes (accept / refuse /
black-hole / slow), FIN, half close, RST (both ends), write-to-closed-peer -> RST one
trip later, partitions (hold deliveries until heal), byte-precise cuts.
"""
from __future__ import annotations

import asyncio
import asyncio.base_events
import collections
import errno
from typing import Optional

from .loop import NODE, SimLoop
from .prf import Streams

HIGH_WATER = 64 * 1024
LOW_WATER = 16 * 1024


class Host:
    def __init__(self, name: str, ip: str):
        self.name = name
        self.ip = ip
        self.alive = True
        self._next_port = 40000

    def ephemeral_port(self) -> int:
        self._next_port += 1
        return self._next_port

    def __repr__(self):
        return f"Host({self.name})"


class _FakeSock:
    """What base_events.Server wants from a listening socket."""

    def __init__(self, listener):
        self._sim_listener = listener

    def listen(self, backlog):
        pass

    def getsockname(self):
        return (self._sim_listener.ip, self._sim_listener.port)

    def close(self):
        pass

    def fileno(self):
        return -1

    family = 2
    type = 1
    proto = 0


class Listener:
    def __init__(self, net: 'Net', host: Host, port: int, context):
        self.net = net
        self.host = host
        self.ip = host.ip
        self.port = port
        self.context = context
        self.protocol_factory = None
        self.server = None
        self.serving = False
        self.accepted = 0

    def start(self, protocol_factory, server):
        self.protocol_factory = protocol_factory
        self.server = server
        self.serving = True
        self.net.listeners[(self.ip, self.port)] = self

    def stop(self):
        self.serving = False
        if self.net.listeners.get((self.ip, self.port)) is self:
            del self.net.listeners[(self.ip, self.port)]


class Pipe:
    """One direction of a connection: FIFO of segments in flight."""

    __slots__ = ('conn', 'name', 'tx', 'rx', 'queue', 'last_when', 'delivered', 'written',
                 'cut_at', 'cut_kind', 'hold_until', 'seg_n')

    def __init__(self, conn, name):
        self.conn = conn
        self.name = name          # 'c2s' or 's2c'
        self.tx: Optional[SimTransport] = None
        self.rx: Optional[SimTransport] = None
        self.queue = collections.deque()
        self.last_when = 0.0
        self.delivered = 0
        self.written = 0
        self.cut_at: Optional[int] = None
        self.cut_kind = 'rst'
        self.hold_until = 0.0
        self.seg_n = 0

    def push(self, item, extra_delay: float = 0.0):
        net = self.conn.net
        loop = net.loop
        when = loop.time() + net.latency(self.conn, self.name) + extra_delay
        if when < self.last_when:
            when = self.last_when
        if when < self.hold_until:
            when = self.hold_until
        self.last_when = when
        self.queue.append(item)
        loop.call_at(when, self._arrive, context=self.rx.context)

    def _arrive(self):
        if not self.queue:
            return  # flushed by a reset
        loop = self.conn.net.loop
        if self.hold_until > loop.time():
            # partitioned: keep the item, come back at heal time
            loop.call_at(self.hold_until, self._arrive, context=self.rx.context)
            return
        hops = self.conn.net.arrive_hops(self.conn, self.name) if self.conn.net.arrive_hops else 0
        if hops > 0:
            # iteration-relative placement inside one virtual instant (plan trigger "plus_iter")
            self._hop(hops)
            return
        item = self.queue.popleft()
        self.rx._on_item(item, self)

    def _hop(self, n):
        if n > 0:
            self.conn.net.loop.call_soon(self._hop, n - 1, context=self.rx.context)
            return
        if self.queue:
            item = self.queue.popleft()
            self.rx._on_item(item, self)


class Conn:
    def __init__(self, net, cid, label, src, dst, src_addr, dst_addr):
        self.net: Net = net
        self.id = cid
        self.label = label
        self.src: Host = src
        self.dst: Host = dst
        self.src_addr = src_addr
        self.dst_addr = dst_addr
        self.c2s = Pipe(self, 'c2s')
        self.s2c = Pipe(self, 's2c')
        self.a: Optional[SimTransport] = None   # client end
        self.b: Optional[SimTransport] = None   # server end
        self.opened_at = net.loop.time()
        self.meta: dict = {}
        self.reset_done = False

    def pipe(self, name) -> Pipe:
        return self.c2s if name == 'c2s' else self.s2c

    def is_open(self) -> bool:
        return not (self.a._closed and (self.b is None or self.b._closed))

    # faults -------------------------------------------------------------
    def reset(self, kind='rst'):
        """Network/peer level reset: both ends see ConnectionResetError."""
        if self.reset_done:
            return
        self.reset_done = True
        self.net.fired[kind] += 1
        for pipe in (self.c2s, self.s2c):
            pipe.queue.clear()
        for tr in (self.a, self.b):
            if tr is not None and not tr._closed:
                tr._force_close(ConnectionResetError(errno.ECONNRESET, 'Connection reset by peer'))

    def hold(self, duration: float, direction: Optional[str] = None):
        until = self.net.loop.time() + duration
        self.net.fired['partition'] += 1
        for pipe in (self.c2s, self.s2c):
            if direction in (None, pipe.name):
                pipe.hold_until = max(pipe.hold_until, until)

    def cut_after(self, direction: str, nbytes: int, kind='rst'):
        pipe = self.pipe(direction)
        pipe.cut_at = nbytes
        pipe.cut_kind = kind
        if pipe.delivered >= nbytes:
            self.reset('rst_at_byte')

    def __repr__(self):
        return f"Conn({self.label})"


class SimTransport(asyncio.Transport):

    def __init__(self, conn: Conn, side: str, context, extra):
        super().__init__(extra)
        self.conn = conn
        self.side = side  # 'a' (client) / 'b' (server)
        self.context = context
        self.loop: SimLoop = conn.net.loop
        self._protocol = None
        self._closing = False
        self._closed = False
        self._eof_sent = False
        self._eof_received = False
        self._paused_reading = False
        self._rx_pending = collections.deque()
        self._outbuf: list[bytes] = []
        self._flush_scheduled = False
        self._inflight = 0
        self._write_paused = False
        self._server = None
        self._lost_called = False
        self._close_deferred = False
        self.tx_pipe: Pipe = conn.c2s if side == 'a' else conn.s2c
        self.rx_pipe: Pipe = conn.s2c if side == 'a' else conn.c2s
        self.tx_pipe.tx = self
        self.rx_pipe.rx = self

    @property
    def peer(self) -> 'SimTransport':
        return self.conn.b if self.side == 'a' else self.conn.a

    # asyncio.Transport API ----------------------------------------------
    def set_protocol(self, protocol):
        self._protocol = protocol

    def get_protocol(self):
        return self._protocol

    def is_closing(self):
        return self._closing

    def is_reading(self):
        return not self._closing and not self._paused_reading

    def pause_reading(self):
        self._paused_reading = True

    def resume_reading(self):
        if not self._paused_reading:
            return
        self._paused_reading = False
        if self._rx_pending:
            self.loop.call_soon(self._drain_pending, context=self.context)

    def _drain_pending(self):
        while self._rx_pending and not self._paused_reading and not self._closed:
            item, pipe = self._rx_pending.popleft()
            self._deliver(item, pipe)

    def set_write_buffer_limits(self, high=None, low=None):
        pass

    def get_write_buffer_size(self):
        return self._inflight

    def get_write_buffer_limits(self):
        return (LOW_WATER, HIGH_WATER)

    def can_write_eof(self):
        return True

    def write(self, data):
        if not isinstance(data, (bytes, bytearray, memoryview)):
            raise TypeError(f'data argument must be a bytes-like object, not {type(data).__name__!r}')
        if self._eof_sent:
            raise RuntimeError('Cannot call write() after write_eof()')
        if not data:
            return
        if self._closing or self._closed:
            return
        data = bytes(data)
        net = self.conn.net
        self.tx_pipe.written += len(data)
        for tap in net.taps:
            tap.on_write(self.conn, self.tx_pipe.name, data)
        self._inflight += len(data)
        self._outbuf.append(data)
        if net.cfg.get('coalesce', True):
            if not self._flush_scheduled:
                self._flush_scheduled = True
                self.loop.call_soon(self._flush, context=self.context)
        else:
            self._flush()
        if not self._write_paused and self._inflight > HIGH_WATER:
            self._write_paused = True
            try:
                self._protocol.pause_writing()
            except Exception as exc:  # pragma: no cover
                self.loop.call_exception_handler({'message': 'pause_writing failed', 'exception': exc})

    def _flush(self):
        self._flush_scheduled = False
        if not self._outbuf:
            return
        if self.conn.reset_done:
            self._outbuf.clear()
            return
        data = b''.join(self._outbuf) if len(self._outbuf) > 1 else self._outbuf[0]
        self._outbuf.clear()
        for seg in self.conn.net.segment(self.conn, self.tx_pipe, data):
            self.tx_pipe.push(('data', seg))

    def write_eof(self):
        if self._closing or self._eof_sent:
            return
        self._eof_sent = True
        self._flush()
        self.tx_pipe.push(('eof', None))

    def close(self):
        if self._closing:
            return
        self._closing = True
        self._flush()
        if not self._eof_sent and not self.conn.reset_done:
            self._eof_sent = True
            self.tx_pipe.push(('eof', None))
        peer = self.peer
        if self._inflight > HIGH_WATER and not self.conn.reset_done and peer is not None and not peer._closed:
            # like a selector transport closed while its own buffer still holds data (the peer does not read and the
            # socket buffers are full): no more reads, and connection_lost() only once the buffer has gone out - never, if
            # the peer never reads again and nothing resets the connection
            self._close_deferred = True
            self.conn.net.fired['close_waits_for_unsent_data'] += 1
            return
        self._closed = True
        self.loop.call_soon(self._call_connection_lost, None, context=self.context)

    def abort(self):
        if self._closed:
            return
        self._closing = True
        self._outbuf.clear()
        # RST towards the peer after one trip
        conn = self.conn
        peer = self.peer
        self._force_close(None)
        if peer is not None and not peer._closed and not conn.reset_done:
            lat = conn.net.latency(conn, self.tx_pipe.name)
            self.tx_pipe.queue.clear()
            self.loop.call_later(
                lat, peer._force_close,
                ConnectionResetError(errno.ECONNRESET, 'Connection reset by peer'),
                context=peer.context)

    def _force_close(self, exc):
        if self._closed:
            return
        self._closing = True
        self._closed = True
        self._rx_pending.clear()
        self.loop.call_soon(self._call_connection_lost, exc, context=self.context)

    def _call_connection_lost(self, exc):
        if self._lost_called:
            return
        self._lost_called = True
        for tap in self.conn.net.taps:
            tap.on_lost(self.conn, self.side, exc)
        try:
            if self._protocol is not None:
                self._protocol.connection_lost(exc)
        finally:
            server = self._server
            if server is not None:
                self._server = None
                server._detach()

    # receiving ---------------------------------------------------------
    def _on_item(self, item, pipe: Pipe):
        kind, data = item
        if kind == 'made':
            self._connection_made(data)
            return
        if self._closed:
            if kind == 'data' and not self.conn.reset_done:
                # peer wrote to a fully closed socket: RST one trip later
                peer = self.peer
                lat = self.conn.net.latency(self.conn, self.tx_pipe.name)
                if peer is not None and not peer._closed:
                    self.loop.call_later(
                        lat, peer._force_close,
                        ConnectionResetError(errno.ECONNRESET, 'Connection reset by peer'),
                        context=peer.context)
            if kind == 'data':
                # accounted as no longer in flight for the sender
                pipe.tx._ack(len(data))
            return
        if self._close_deferred:
            # closed for reading
            if kind == 'data':
                pipe.tx._ack(len(data))
            return
        if self._paused_reading or self._rx_pending:
            self._rx_pending.append((item, pipe))
            return
        self._deliver(item, pipe)

    def _deliver(self, item, pipe: Pipe):
        kind, data = item
        net = self.conn.net
        if kind == 'data':
            cut = pipe.cut_at
            fire_cut = False
            if cut is not None and pipe.delivered + len(data) >= cut:
                keep = cut - pipe.delivered
                pipe.tx._ack(len(data) - max(keep, 0))
                data = data[:keep] if keep > 0 else b''
                fire_cut = True
            if data:
                pipe.delivered += len(data)
                for tap in net.taps:
                    tap.on_data(self.conn, pipe.name, data)
                pipe.tx._ack(len(data))
                self._protocol.data_received(data)
            if fire_cut:
                pipe.cut_at = None
                if pipe.cut_kind == 'rst':
                    self.conn.reset('rst_at_byte')
        elif kind == 'eof':
            self._eof_received = True
            for tap in net.taps:
                tap.on_eof(self.conn, pipe.name)
            keep_open = self._protocol.eof_received()
            if not keep_open:
                self.close()

    def _ack(self, n: int):
        self._inflight -= n
        if self._close_deferred and not self._closed and self._inflight <= HIGH_WATER:
            self._close_deferred = False
            self._closed = True
            self.loop.call_soon(self._call_connection_lost, None, context=self.context)
            return
        if self._write_paused and self._inflight <= LOW_WATER and not self._closed:
            self._write_paused = False
            self.loop.call_soon(self._resume_writing, context=self.context)

    def _resume_writing(self):
        if self._closed:
            return
        try:
            self._protocol.resume_writing()
        except Exception as exc:  # pragma: no cover
            self.loop.call_exception_handler({'message': 'resume_writing failed', 'exception': exc})

    def _connection_made(self, listener: Listener):
        # server side: runs in the listener's context
        if self.conn.reset_done or not listener.host.alive:
            return
        server = listener.server
        protocol = listener.protocol_factory()
        self._protocol = protocol
        if server is not None and server._sockets is not None:
            server._attach()
            self._server = server
        listener.accepted += 1
        for tap in self.conn.net.taps:
            tap.on_accept(self.conn)
        protocol.connection_made(self)


class Net:

    def __init__(self, loop: SimLoop, streams: Streams, cfg: Optional[dict] = None):
        self.loop = loop
        loop.net = self
        self.streams = streams
        self.cfg = dict(cfg or {})
        self.hosts: dict[str, Host] = {}
        self.hosts_by_ip: dict[str, Host] = {}
        self.listeners: dict[tuple[str, int], Listener] = {}
        self.conns: list[Conn] = []
        self.taps: list = []
        self.fired = collections.Counter()
        self.bind_fail: set[tuple[str, int]] = set()
        self.connect_hook = None
        self.arrive_hops = None   # fn(conn, direction) -> extra loop iterations before delivery
        self._label_counts = collections.Counter()
        self._bound: dict[tuple[str, int], Listener] = {}
        self.connect_attempts: list[tuple] = []

    # topology ---------------------------------------------------------------
    def add_host(self, name: str, ip: Optional[str] = None) -> Host:
        if ip is None:
            ip = f"10.0.{len(self.hosts) // 200}.{len(self.hosts) % 200 + 2}"
        host = Host(name, ip)
        self.hosts[name] = host
        self.hosts_by_ip[ip] = host
        return host

    def resolve(self, hostname: str) -> Optional[Host]:
        host = self.hosts_by_ip.get(hostname)
        if host is None:
            host = self.hosts.get(hostname)
        return host

    # timing -------------------------------------------------------------------
    def link_cfg(self, conn: Conn) -> dict:
        links = self.cfg.get('links')
        if links:
            lc = links.get(f"{conn.src.name}>{conn.dst.name}") or links.get(f"{conn.dst.name}>{conn.src.name}")
            if lc:
                return lc
        return self.cfg

    def latency(self, conn: Conn, direction: str) -> float:
        lc = self.link_cfg(conn)
        base = lc.get('base_ms', 5.0) / 1000.0
        jitter = lc.get('jitter_ms', 0.0) / 1000.0
        if jitter <= 0:
            return base
        return base + self.streams.uniform(f"lat/{conn.label}/{direction}", 0.0, jitter)

    def segment(self, conn: Conn, pipe: Pipe, data: bytes):
        mode = self.link_cfg(conn).get('segmentation', self.cfg.get('segmentation', 'whole'))
        n = len(data)
        if mode == 'whole' or n <= 1:
            return (data,)
        if mode == 'byte' and n <= self.cfg.get('byte_mode_max', 512):
            self.fired['segment_1byte'] += 1
            return tuple(data[i:i + 1] for i in range(n))
        # 'prf' (also 'byte' on long writes)
        rng = self.streams.get(f"seg/{conn.label}/{pipe.name}")
        out = []
        pos = 0
        maxseg = self.cfg.get('max_segment', 16384)
        while pos < n:
            r = rng.random()
            if r < 0.15:
                size = 1
            elif r < 0.5:
                size = rng.randint(1, min(64, n - pos))
            else:
                size = rng.randint(1, min(maxseg, n - pos))
            out.append(data[pos:pos + size])
            pos += size
        if len(out) > 1:
            self.fired['segmented'] += 1
        return out

    # connect / listen ---------------------------------------------------------
    async def create_server(self, loop, protocol_factory, host=None, port=None, *,
                            start_serving=True, backlog=100, **kwargs):
        node: Host = NODE.get()
        if node is None:
            raise RuntimeError("create_server outside of a simulated host")
        key = (node.ip, port)
        if (node.name, port) in self.bind_fail or key in self._bound:
            self.fired['bind_fail'] += 1
            raise OSError(errno.EADDRINUSE, f"error while attempting to bind on address ({host!r}, {port}): address already in use")
        import contextvars
        listener = Listener(self, node, port, contextvars.copy_context())
        self._bound[key] = listener
        sock = _FakeSock(listener)
        server = asyncio.base_events.Server(loop, [sock], protocol_factory, None, backlog, None)
        _orig_close = server.close

        def close():
            _orig_close()
            if self._bound.get(key) is listener:
                del self._bound[key]
        server.close = close
        if start_serving:
            server._start_serving()
            await asyncio.sleep(0)
        return server

    async def create_connection(self, loop, protocol_factory, host=None, port=None, **kwargs):
        node: Host = NODE.get()
        if node is None:
            raise RuntimeError("create_connection outside of a simulated host")
        if not isinstance(port, int) or not 0 <= port <= 65535:
            # what socket.connect() does with such an address (ports travel as uint32 in the protocol)
            self.fired['connect_bad_port'] += 1
            raise OverflowError('connect(): port must be 0-65535.')
        dst = self.resolve(host)
        attempt = {'src': node.name, 'dst': dst.name if dst else host, 'ip': host, 'port': port, 'time': loop.time()}
        self.connect_attempts.append(attempt)
        outcome = None
        if self.connect_hook is not None:
            outcome = self.connect_hook(attempt)
        base = self.cfg.get('base_ms', 5.0) / 1000.0
        jitter = self.cfg.get('jitter_ms', 0.0) / 1000.0
        rtt_name = f"conn/{node.name}>{attempt['dst']}:{port}"
        if outcome is None:
            delay = 2 * base + (self.streams.uniform(rtt_name, 0.0, 2 * jitter) if jitter > 0 else 0.0)
            outcome = ('accept', delay)
        kind, delay = outcome
        attempt['outcome'] = kind
        if kind == 'blackhole':
            self.fired['connect_blackhole'] += 1
            await loop.create_future()  # only cancellation (the caller's timeout) ends this
        if delay and delay > 0:
            await asyncio.sleep(delay)
        else:
            await asyncio.sleep(0)
        for _ in range(attempt.get('hops', 0)):
            await asyncio.sleep(0)   # iteration-relative placement inside one virtual instant
        if kind == 'unreachable':
            self.fired['connect_unreachable'] += 1
            raise OSError(errno.EHOSTUNREACH, f"Connect call failed ({host!r}, {port})")
        listener = None
        if dst is not None and dst.alive:
            listener = self.listeners.get((dst.ip, port))
        if kind == 'refuse' or listener is None or not listener.serving:
            self.fired['connect_refused'] += 1
            attempt['outcome'] = 'refuse'
            raise ConnectionRefusedError(errno.ECONNREFUSED, f"Connect call failed ({host!r}, {port})")
        if kind == 'slow':
            self.fired['connect_slow'] += 1
        # build the pair
        lkey = (node.name, dst.name, port)
        self._label_counts[lkey] += 1
        label = f"{node.name}>{dst.name}:{port}#{self._label_counts[lkey]}"
        src_addr = (node.ip, node.ephemeral_port())
        dst_addr = (dst.ip, port)
        conn = Conn(self, len(self.conns) + 1, label, node, dst, src_addr, dst_addr)
        self.conns.append(conn)
        attempt['conn'] = conn.label
        import contextvars
        a = SimTransport(conn, 'a', contextvars.copy_context(), {'peername': dst_addr, 'sockname': src_addr})
        b = SimTransport(conn, 'b', listener.context, {'peername': src_addr, 'sockname': dst_addr})
        conn.a, conn.b = a, b
        for tap in self.taps:
            tap.on_connect(conn)
        protocol = protocol_factory()
        a._protocol = protocol
        if kind == 'accept_reset':
            # RST lands together with the end of the handshake (e.g. forwarded port, dead service)
            protocol.connection_made(a)
            conn.b._closed = True
            conn.reset('rst_on_connect')
            return a, protocol
        # the server learns about the connection one trip after the client
        conn.c2s.push(('made', listener))
        protocol.connection_made(a)
        return a, protocol

    # queries for oracles --------------------------------------------------------
    def open_conns(self, host: Optional[Host] = None) -> list[Conn]:
        out = []
        for c in self.conns:
            for tr, h in ((c.a, c.src), (c.b, c.dst)):
                if tr is not None and not tr._closed and tr._protocol is not None and (host is None or h is host):
                    out.append(c)
                    break
        return out

    def open_transports(self, host: Host) -> list[SimTransport]:
        out = []
        for c in self.conns:
            if c.src is host and not c.a._closed:
                out.append(c.a)
            if c.dst is host and c.b is not None and not c.b._closed and c.b._protocol is not None:
                out.append(c.b)
        return out

    def kill_host(self, host: Host):
        """Host disappears: listeners vanish, every connection is reset towards the other end."""
        host.alive = False
        self.fired['host_killed'] += 1
        for key, lst in list(self.listeners.items()):
            if lst.host is host:
                lst.serving = False
                del self.listeners[key]
        for key, lst in list(self._bound.items()):
            if lst.host is host:
                del self._bound[key]
        for c in self.conns:
            if c.src is host or c.dst is host:
                if c.is_open():
                    c.reset('host_reset')


class Tap:
    """Base class for connection observers (all callbacks optional)."""

    def on_connect(self, conn): pass
    def on_accept(self, conn): pass
    def on_write(self, conn, direction, data): pass
    def on_data(self, conn, direction, data): pass
    def on_eof(self, conn, direction): pass
    def on_lost(self, conn, side, exc): pass
