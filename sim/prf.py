"""Named pseudo-random streams: one ``random.Random`` per (seed, stream name).

Seeding ``random.Random`` with a str hashes it with SHA-512, which does not depend
on PYTHONHASHSEED.  Deleting an operation from a plan only perturbs the streams
that operation touched, which keeps minimisation stable.
"""
from __future__ import annotations

import random


class Streams:
    def __init__(self, seed):
        self.seed = seed
        self._streams: dict[str, random.Random] = {}

    def get(self, name: str) -> random.Random:
        rng = self._streams.get(name)
        if rng is None:
            rng = self._streams[name] = random.Random(f"{self.seed}/{name}")
        return rng

    def uniform(self, name: str, lo: float, hi: float) -> float:
        if hi <= lo:
            return lo
        return self.get(name).uniform(lo, hi)

    def randint(self, name: str, lo: int, hi: int) -> int:
        if hi <= lo:
            return lo
        return self.get(name).randint(lo, hi)

    def random(self, name: str) -> float:
        return self.get(name).random()

    def randbytes(self, name: str, n: int) -> bytes:
        return self.get(name).randbytes(n)


def derive_rng(*parts) -> random.Random:
    return random.Random('/'.join(str(p) for p in parts))
