"""Orchestration: seeded search over plans on N forked workers, directed corpus,
known-findings matching, minimisation, replay files, evidence."""
from __future__ import annotations

import argparse
import collections
import concurrent.futures
import faulthandler
import hashlib
import importlib
import json
import multiprocessing
import os
import platform
import subprocess
import sys
import time
import traceback

VERIF = os.path.dirname(os.path.dirname(os.path.abspath(__file__)))
HASHSEED = '0'

TIERS = {
    # wall budget (s) for the seeded search, per-run wall cap (s)
    'quick': {'budget': 40.0, 'run_wall': 30.0},
    'thorough': {'budget': 600.0, 'run_wall': 60.0},
}


def load_check(prop: str):
    return importlib.import_module(f"checks.{prop.lower()}")


def plan_key(plan: dict) -> str:
    blob = json.dumps(plan, sort_keys=True, default=str).encode()
    return hashlib.blake2b(blob, digest_size=8).hexdigest()


class HarnessError(Exception):
    pass


def run_one(mod, plan: dict, run_wall: float = 30.0) -> dict:
    """Run one plan; returns the result dict.  Harness problems are returned under
    'harness_error' (never as violations)."""
    plan = dict(plan)
    plan.setdefault('_key', plan_key(plan))
    caps = dict(plan.get('caps', {}))
    caps.setdefault('wall', run_wall)
    plan['caps'] = caps
    t0 = time.monotonic()
    try:
        res = mod.run(plan)
    except BaseException as exc:  # noqa
        if isinstance(exc, KeyboardInterrupt):
            raise
        res = {'violations': [], 'harness_error': f"{type(exc).__name__}: {exc}",
               'traceback': traceback.format_exc()}
    res.setdefault('violations', [])
    res.setdefault('fired', {})
    res.setdefault('probes', {})
    res.setdefault('sim_time', 0.0)
    res.setdefault('signature', None)
    res.setdefault('nontrivial', False)
    res['wall'] = time.monotonic() - t0
    return res


def load_known():
    path = os.path.join(VERIF, 'known_findings.json')
    if not os.path.exists(path):
        return {'open': [], 'fixed': []}
    with open(path) as fh:
        return json.load(fh)


def match_known(prop: str, violation: dict, known: dict):
    for entry in known.get('open', []):
        if entry.get('property') != prop:
            continue
        if entry.get('invariant') != violation['invariant']:
            continue
        facts = violation.get('facts', {})
        if all(facts.get(k) == v for k, v in entry.get('facts', {}).items()):
            return entry
    return None


def vkey(v: dict) -> str:
    return v['invariant'] + '|' + json.dumps(v.get('facts', {}), sort_keys=True, default=str)


def _worker(prop, tier, seed, widx, nworkers, deadline, max_runs, run_wall, start_index):
    faulthandler.enable()
    mod = load_check(prop)
    known = load_known()
    agg = {
        'evaluations': 0, 'signatures': set(), 'fired': collections.Counter(),
        'probes': collections.Counter(), 'sim_time': 0.0, 'unknown': {}, 'known': {},
        'harness_errors': [], 'samples': [], 'fault_runs': 0, 'clean_runs': 0,
        'max_wall': 0.0, 'digests': {},
    }
    index = start_index + widx
    runs = 0
    from .prf import derive_rng
    while time.monotonic() < deadline and runs < max_runs:
        rng = derive_rng(seed, prop, index)
        plan = mod.generate(rng, index, tier)
        plan['_index'] = index
        faulthandler.dump_traceback_later(run_wall + 30, exit=True)
        res = run_one(mod, plan, run_wall)
        faulthandler.cancel_dump_traceback_later()
        _absorb(agg, prop, plan, res, known)
        if len(agg['samples']) < 2 and res.get('nontrivial'):
            agg['samples'].append({'plan': plan, 'signature': res.get('signature'),
                                   'sim_time': round(res.get('sim_time', 0.0), 3)})
        runs += 1
        index += nworkers
        if (len(agg['unknown']) >= 3 and not os.environ.get('VERIF_LIST')) or len(agg['harness_errors']) >= 3:
            break
    agg['signatures'] = list(agg['signatures'])
    agg['fired'] = dict(agg['fired'])
    agg['probes'] = dict(agg['probes'])
    return agg


def _absorb(agg, prop, plan, res, known):
    agg['evaluations'] += 1
    agg['sim_time'] += res.get('sim_time', 0.0)
    agg['max_wall'] = max(agg['max_wall'], res.get('wall', 0.0))
    fired = res.get('fired') or {}
    agg['fired'].update(fired)
    agg['probes'].update(res.get('probes') or {})
    if fired:
        agg['fault_runs'] += 1
    else:
        agg['clean_runs'] += 1
    if res.get('nontrivial') and res.get('signature') is not None:
        agg['signatures'].add(res['signature'])
    if res.get('harness_error'):
        if len(agg['harness_errors']) < 5:
            agg['harness_errors'].append({'plan': plan, 'error': res['harness_error'],
                                          'traceback': res.get('traceback')})
        return
    for v in res['violations']:
        entry = match_known(prop, v, known)
        if entry is not None:
            agg['known'].setdefault(entry['id'], 0)
            agg['known'][entry['id']] += 1
        else:
            k = vkey(v)
            if k not in agg['unknown']:
                agg['unknown'][k] = {'plan': plan, 'violation': v, 'digest': res.get('digest')}


def load_corpus_dir(prop):
    """Minimised replays of repaired defects and hand-written plans: corpus/<prop>/*.json"""
    d = os.path.join(VERIF, 'corpus', prop.lower())
    out = []
    if os.path.isdir(d):
        for name in sorted(os.listdir(d)):
            if name.endswith('.json'):
                with open(os.path.join(d, name)) as fh:
                    rec = json.load(fh)
                plan = rec.get('plan', rec)
                plan['_corpus'] = name
                out.append(plan)
    return out


def repo_tree_id() -> str:
    repo = os.environ.get('VERIF_REPO', '/repo')
    try:
        head = subprocess.run(['git', '-C', repo, 'rev-parse', 'HEAD'], capture_output=True, text=True).stdout.strip()
        dirty = subprocess.run(['git', '-C', repo, 'status', '--porcelain'], capture_output=True, text=True).stdout.strip()
        return head + ('+dirty' if dirty else '')
    except Exception:
        return 'unknown'


def minimise(mod, prop, plan, violation, budget_runs=200, run_wall=30.0):
    from .shrink import shrink
    target = violation['invariant']

    def fails(candidate):
        res = run_one(mod, candidate, run_wall)
        if res.get('harness_error'):
            return None
        for v in res['violations']:
            if v['invariant'] == target:
                return v
        return None

    return shrink(mod, plan, fails, budget_runs)


def write_replay(prop, plan, violation, digest) -> str:
    scratch_repo = os.environ.get('VERIF_REPO', '/repo') != '/repo'
    d = os.path.join(VERIF, 'replays', 'tmp' if scratch_repo else prop)
    os.makedirs(d, exist_ok=True)
    name = f"{plan.get('_index', 'x')}-{violation['invariant'].replace('.', '_')}-{plan_key(plan)}.json"
    path = os.path.join(d, name)
    with open(path, 'w') as fh:
        json.dump({
            'property': prop, 'plan': plan, 'violation': violation, 'digest': digest,
            'hashseed': HASHSEED, 'python': platform.python_version(), 'repo_tree': repo_tree_id(),
        }, fh, indent=1, default=str)
    return path


def digests_of(prop, tier, seed, start, count, reverse=False):
    from .prf import derive_rng
    mod = load_check(prop)
    out = {}
    indices = list(range(start, start + count))
    if reverse:
        indices.reverse()
    for index in indices:
        plan = mod.generate(derive_rng(seed, prop, index), index, tier)
        plan['_index'] = index
        res = run_one(mod, plan)
        out[index] = [res.get('digest'), sorted(vkey(v) for v in res['violations']), res.get('harness_error')]
    return out


def do_digests(prop, tier, seed, start, count, reverse):
    print(json.dumps(digests_of(prop, tier, seed, start, count, reverse)))
    return 0


def do_replay(prop, path) -> int:
    mod = load_check(prop)
    with open(path) as fh:
        rec = json.load(fh)
    res = run_one(mod, rec['plan'])
    if res.get('harness_error'):
        print(f"HARNESS-ERROR property={prop} {res['harness_error']}")
        print(res.get('traceback') or '')
        return 2
    want = rec.get('violation')
    found = None
    for v in res['violations']:
        if want is None or v['invariant'] == want['invariant']:
            found = v
            break
    print(json.dumps({'violations': res['violations'], 'digest': res.get('digest'),
                      'recorded_digest': rec.get('digest')}, indent=1, default=str))
    if found is not None:
        known = load_known()
        entry = match_known(prop, found, known)
        if entry is not None:
            print(f"KNOWN-FINDING: property={prop} {entry['what']}")
            return 0
        print(f"VIOLATION property={prop} replay={path}")
        return 1
    print(f"replay did not reproduce a {want['invariant'] if want else ''} violation")
    return 0


def main(argv=None):
    ap = argparse.ArgumentParser()
    ap.add_argument('property')
    ap.add_argument('--tier', default=os.environ.get('VERIF_TIER', 'quick'))
    ap.add_argument('--seed', type=int, default=int(os.environ.get('VERIF_SEED', '0')))
    ap.add_argument('--replay')
    ap.add_argument('--workers', type=int, default=int(os.environ.get('VERIF_WORKERS', '0')))
    ap.add_argument('--budget', type=float, default=None)
    ap.add_argument('--max-runs', type=int, default=None)
    ap.add_argument('--no-evidence', action='store_true')
    ap.add_argument('--no-shrink', action='store_true')
    ap.add_argument('--start-index', type=int, default=0)
    ap.add_argument('--digests', nargs=2, type=int, metavar=('START', 'COUNT'),
                    help='print {index: [digest, violation keys]} for plan indices (self-test helper)')
    ap.add_argument('--reverse', action='store_true')
    ap.add_argument('--selftest', type=int, default=0, metavar='N')
    args = ap.parse_args(argv)

    from . import seams
    seams.ensure_hashseed(HASHSEED)
    sys.path.insert(0, VERIF)
    seams.install()
    prop = args.property.upper()
    if args.replay:
        return do_replay(prop, args.replay)
    if args.digests:
        return do_digests(prop, args.tier, args.seed, args.digests[0], args.digests[1], args.reverse)
    if args.selftest:
        from .selftest import selftest
        return selftest(prop, args.tier, args.seed, args.selftest)

    tier = args.tier if args.tier in TIERS else 'quick'
    cfg = TIERS[tier]
    budget = args.budget if args.budget is not None else float(os.environ.get('VERIF_BUDGET_S', cfg['budget']))
    run_wall = cfg['run_wall']
    mod = load_check(prop)
    known = load_known()
    t_start = time.monotonic()
    nworkers = args.workers or min(16, os.cpu_count() or 1)

    # 1. directed corpus + enumerated axes, in the pool as well (deterministic order)
    corpus = list(mod.corpus(tier)) if hasattr(mod, 'corpus') else []
    corpus.extend(load_corpus_dir(prop))
    total = {
        'evaluations': 0, 'signatures': set(), 'fired': collections.Counter(),
        'probes': collections.Counter(), 'sim_time': 0.0, 'unknown': {}, 'known': {},
        'harness_errors': [], 'samples': [], 'fault_runs': 0, 'clean_runs': 0, 'max_wall': 0.0,
    }
    ctx = multiprocessing.get_context('fork')
    corpus_runs = 0
    enumerated = {}
    with concurrent.futures.ProcessPoolExecutor(max_workers=nworkers, mp_context=ctx) as pool:
        futs = []
        if corpus:
            chunks = [corpus[i::nworkers] for i in range(nworkers)]
            for chunk in chunks:
                if chunk:
                    futs.append(pool.submit(_corpus_worker, prop, chunk, run_wall))
        try:
            for f in futs:
                part = f.result(timeout=max(120.0, run_wall * 4 + len(corpus)))
                _merge(total, part)
                corpus_runs += part['evaluations']
        except concurrent.futures.process.BrokenProcessPool as exc:  # pragma: no cover
            print(f"HARNESS-ERROR property={prop} worker died during corpus: {exc}")
            return 2
        if hasattr(mod, 'enumerated_axes'):
            enumerated = mod.enumerated_axes(tier)

        # 2. seeded search
        deadline = time.monotonic() + budget
        max_runs = args.max_runs if args.max_runs is not None else 10 ** 9
        per_worker = max_runs if max_runs >= 10 ** 9 else (max_runs + nworkers - 1) // nworkers
        futs = [pool.submit(_worker, prop, tier, args.seed, w, nworkers, deadline, per_worker,
                            run_wall, args.start_index) for w in range(nworkers)]
        try:
            for f in futs:
                part = f.result(timeout=budget + run_wall + 90)
                _merge(total, part)
        except concurrent.futures.process.BrokenProcessPool as exc:
            print(f"HARNESS-ERROR property={prop} worker died: {exc}")
            return 2
        except concurrent.futures.TimeoutError:
            print(f"HARNESS-TIMEOUT property={prop}")
            for p in list(pool._processes.values()):
                p.kill()
            return 2

    search_wall = time.monotonic() - t_start
    exit_code = 0
    replays = []
    for entry_id, count in sorted(total['known'].items()):
        entry = next(e for e in known['open'] if e['id'] == entry_id)
        print(f"KNOWN-FINDING: property={prop} {entry['what']} [{entry_id}; seen in {count} runs]")
    if total['harness_errors']:
        exit_code = 2
        for he in total['harness_errors'][:3]:
            print(f"HARNESS-ERROR property={prop} {he['error']}")
            print(he.get('traceback') or '')
            d = os.path.join(VERIF, 'replays', 'tmp')
            os.makedirs(d, exist_ok=True)
            with open(os.path.join(d, f"{prop}-harness-{plan_key(he['plan'])}.json"), 'w') as fh:
                json.dump({'property': prop, 'plan': he['plan'], 'error': he['error']}, fh, indent=1, default=str)
    if total['unknown'] and os.environ.get('VERIF_LIST'):
        for k in sorted(total['unknown']):
            print('UNKNOWN', k)
    if total['unknown']:
        exit_code = 1
        by_inv = {}
        for k, rec in sorted(total['unknown'].items()):
            by_inv.setdefault(rec['violation']['invariant'], rec)
        for inv, rec in sorted(by_inv.items()):
            plan, violation = rec['plan'], rec['violation']
            if not args.no_shrink:
                try:
                    plan, violation = minimise(mod, prop, plan, violation, run_wall=run_wall)
                except Exception:
                    traceback.print_exc()
            res = run_one(mod, plan, run_wall)
            path = write_replay(prop, plan, violation, res.get('digest'))
            replays.append(path)
            print(f"VIOLATION property={prop} replay={path}")
            print(f"  invariant={violation['invariant']} facts={json.dumps(violation.get('facts', {}), default=str)}")

    wall = time.monotonic() - t_start
    if not args.no_evidence:
        write_evidence(mod, prop, tier, args.seed, total, corpus_runs, enumerated, wall, search_wall,
                       nworkers, len(total['unknown']), replays)
    hours = max(wall, 1e-9) / 3600.0
    print(f"{prop} tier={tier} seed={args.seed} runs={total['evaluations']} (corpus {corpus_runs}) "
          f"distinct_nontrivial={len(total['signatures'])} sim_time={total['sim_time']:.0f}s "
          f"runs/h={total['evaluations'] / hours:.0f} wall={wall:.1f}s "
          f"violations={len(total['unknown'])} known={sum(total['known'].values())} "
          f"harness_errors={len(total['harness_errors'])}")
    return exit_code


def _corpus_worker(prop, plans, run_wall):
    faulthandler.enable()
    mod = load_check(prop)
    known = load_known()
    agg = {
        'evaluations': 0, 'signatures': set(), 'fired': collections.Counter(),
        'probes': collections.Counter(), 'sim_time': 0.0, 'unknown': {}, 'known': {},
        'harness_errors': [], 'samples': [], 'fault_runs': 0, 'clean_runs': 0, 'max_wall': 0.0,
    }
    for plan in plans:
        faulthandler.dump_traceback_later(run_wall + 30, exit=True)
        res = run_one(mod, plan, run_wall)
        faulthandler.cancel_dump_traceback_later()
        _absorb(agg, prop, plan, res, known)
    agg['signatures'] = list(agg['signatures'])
    agg['fired'] = dict(agg['fired'])
    agg['probes'] = dict(agg['probes'])
    return agg


def _merge(total, part):
    total['evaluations'] += part['evaluations']
    total['signatures'].update(part['signatures'])
    total['fired'].update(part['fired'])
    total['probes'].update(part['probes'])
    total['sim_time'] += part['sim_time']
    total['fault_runs'] += part['fault_runs']
    total['clean_runs'] += part['clean_runs']
    total['max_wall'] = max(total['max_wall'], part['max_wall'])
    for k, v in part['unknown'].items():
        total['unknown'].setdefault(k, v)
    for k, v in part['known'].items():
        total['known'][k] = total['known'].get(k, 0) + v
    total['harness_errors'].extend(part['harness_errors'])
    if len(total['samples']) < 3:
        total['samples'].extend(part['samples'][:3 - len(total['samples'])])


def write_evidence(mod, prop, tier, seed, total, corpus_runs, enumerated, wall, search_wall,
                   nworkers, nviol, replays):
    info = getattr(mod, 'INFO', {})
    hours = max(wall, 1e-9) / 3600.0
    samples = []
    for s in total['samples'][:3]:
        samples.append(_compact(s))
    if not samples:
        samples.append({'note': 'no non-trivial sample recorded in this run'})
    coverage = {
        'evaluations': total['evaluations'],
        'distinct_nontrivial': len(total['signatures']),
        'rule': info.get('rule', ''),
        'samples': samples,
        'corpus_and_enumerated_runs': corpus_runs,
        'seeded_runs': total['evaluations'] - corpus_runs,
        'runs_per_hour': round(total['evaluations'] / hours),
        'seeds_per_hour': round((total['evaluations'] - corpus_runs) / hours),
        'simulated_seconds': round(total['sim_time'], 1),
        'faults_fired': dict(sorted(total['fired'].items())),
        'runs_with_faults': total['fault_runs'],
        'runs_without_faults': total['clean_runs'],
        'probes': dict(sorted(total['probes'].items())),
        'interleaving_measure': 'distinct_nontrivial counts distinct interleaving signatures (hash of the '
                                'time- and payload-abstracted event sequence of a run) among non-trivial runs',
        'enumerated_axes': enumerated,
        'components_real': info.get('real', []),
        'components_stub': info.get('stub', []),
        'workers': nworkers,
        'max_run_wall_s': round(total['max_wall'], 3),
        'known_findings_seen': total['known'],
        'replays': replays,
        'pythonhashseed': HASHSEED,
        'repo_tree': repo_tree_id(),
    }
    if enumerated and all(a.get('exhaustive') for a in enumerated.values()):
        coverage['exhaustive_axes'] = sorted(enumerated)
    ev = {
        'property_id': prop,
        'tier': tier,
        'seed': seed,
        'level': info.get('level', 'exploration'),
        'coverage': coverage,
        'assumptions': info.get('assumptions', []),
        'wall_s': round(wall, 2),
        'violations': nviol,
    }
    d = os.path.join(VERIF, 'evidence')
    os.makedirs(d, exist_ok=True)
    tmp = os.path.join(d, f".{prop}.json.tmp")
    with open(tmp, 'w') as fh:
        json.dump(ev, fh, indent=1, default=str)
    os.replace(tmp, os.path.join(d, f"{prop}.json"))


def _compact(sample):
    plan = {k: v for k, v in sample['plan'].items() if not k.startswith('_') or k == '_index'}
    blob = json.dumps(plan, default=str)
    if len(blob) > 4000:
        plan = {'_index': plan.get('_index'), 'truncated': blob[:4000]}
    return {'plan': plan, 'signature': sample.get('signature'), 'sim_time': sample.get('sim_time')}


if __name__ == '__main__':  # pragma: no cover
    sys.exit(main())
