"""Seams outside /repo: clock shim, key source, uuid, hash neutralisation, gc, logs."""
from __future__ import annotations

import gc
import logging
import os
import sys
import types

from . import loop as simloop

_TIME_MODULES = (
    'aioslsk.network.rate_limiter',
    'aioslsk.transfer.model',
    'aioslsk.transfer.manager',
    'aioslsk.shares.manager',
    'aioslsk.room.manager',
    'aioslsk.commands',
)

WALL_EPOCH = 1_700_000_000.0


class TimeShim(types.SimpleNamespace):
    """Stands in for the ``time`` module inside aioslsk modules; reads the loop clock."""

    def __init__(self):
        super().__init__()
        self.loop = None

    def monotonic(self):
        return self.loop.time()

    def perf_counter(self):
        return self.loop.time()

    def time(self):
        return WALL_EPOCH + self.loop.time()

    def sleep(self, secs):  # pragma: no cover
        raise RuntimeError("time.sleep in simulation")


TIME = TimeShim()


class LogCapture(logging.Handler):
    def __init__(self):
        super().__init__(level=logging.DEBUG)
        self.records: list[tuple] = []
        self.keep_level = logging.WARNING
        self.loop = None

    def emit(self, record):
        if record.levelno < self.keep_level:
            return
        try:
            msg = record.getMessage()
        except Exception:  # pragma: no cover
            msg = str(record.msg)
        exc = None
        if record.exc_info and record.exc_info[1] is not None:
            exc = type(record.exc_info[1]).__name__
        t = self.loop.time() if self.loop is not None else 0.0
        self.records.append((t, record.levelname, record.name, msg, exc))


LOGS = LogCapture()
_installed = False
_key_stream = None


def _generate_key():
    return _key_stream.randbytes('obfkey', 4)


def _lazy_hash(self):
    try:
        return self._sim_hid
    except AttributeError:
        hid = self._sim_hid = simloop.next_hash_id()
        return hid


def scrub_env():
    for key in list(os.environ):
        up = key.upper()
        if up in ('NETWORK', 'CREDENTIALS', 'SEARCHES', 'SHARES', 'USERS', 'ROOMS', 'INTERESTS',
                  'TRANSFERS', 'DEBUG'):
            del os.environ[key]


def install():
    """Process-wide, idempotent.  Must run before any aioslsk object is created."""
    global _installed
    if _installed:
        return
    _installed = True
    scrub_env()
    repo_src = os.environ.get('VERIF_REPO', '/repo') + '/src'
    if repo_src not in sys.path:
        sys.path.insert(0, repo_src)
    import importlib
    import aioslsk
    assert os.path.realpath(aioslsk.__file__).startswith(os.path.realpath(repo_src)), (
        f"aioslsk imported from {aioslsk.__file__}, expected {repo_src}")
    for name in _TIME_MODULES:
        mod = importlib.import_module(name)
        if hasattr(mod, 'time'):
            mod.time = TIME
    from aioslsk.protocol import obfuscation
    obfuscation.generate_key = _generate_key
    import aioslsk.shares.manager as shm

    class _Uuid(types.SimpleNamespace):
        @staticmethod
        def getnode():
            return 0x0242ac110002
    shm.uuid = _Uuid()
    from aioslsk.network import network as nw
    nw.ExpectedResponse.__hash__ = _lazy_hash
    nw.PeerFuture.__hash__ = _lazy_hash
    root = logging.getLogger('aioslsk')
    root.addHandler(LOGS)
    root.setLevel(logging.WARNING)
    root.propagate = False
    # asyncio's own logger ("Task exception was never retrieved" goes through the
    # loop handler instead, this catches the rest)
    alog = logging.getLogger('asyncio')
    alog.addHandler(LOGS)
    alog.propagate = False
    # everything imported so far is permanent: keep it out of the per-run collections
    # (a full collection of the interpreter heap costs ~25 ms, more than a run)
    import aioslsk.client  # noqa: F401  (pulls in every manager)
    gc.collect()
    gc.freeze()


def begin_run(loop, streams):
    """Per run: bind the clock, reset counters, freeze the collector."""
    global _key_stream
    install()
    simloop.reset_ids()
    TIME.loop = loop
    LOGS.loop = loop
    LOGS.records = []
    _key_stream = streams
    gc.disable()
    import aioslsk.utils as au
    import itertools
    # task_counter is only used in task names, reset anyway for readable traces
    cnt = itertools.count(1).__next__
    au.task_counter = cnt
    for modname in ('aioslsk.network.connection', 'aioslsk.network.network', 'aioslsk.distributed',
                    'aioslsk.transfer.manager', 'aioslsk.transfer.model', 'aioslsk.user.manager',
                    'aioslsk.search.manager', 'aioslsk.shares.manager', 'aioslsk.peer'):
        mod = sys.modules.get(modname)
        if mod is not None and hasattr(mod, 'task_counter'):
            mod.task_counter = cnt


def end_run():
    TIME.loop = None
    LOGS.loop = None
    gc.enable()
    gc.collect()


def ensure_hashseed(value: str = '0'):
    """Re-exec the interpreter with a pinned PYTHONHASHSEED (set order is an input)."""
    if os.environ.get('VERIF_ALLOW_HASHSEED'):
        return
    if os.environ.get('PYTHONHASHSEED') != value:
        os.environ['PYTHONHASHSEED'] = value
        os.execv(sys.executable, [sys.executable] + sys.argv)
