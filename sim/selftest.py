"""Determinism self-test: same plan twice - in one batch, in a differently ordered batch,
alone in fresh interpreters, and (verdicts only) under another PYTHONHASHSEED."""
from __future__ import annotations

import json
import os
import subprocess
import sys
import concurrent.futures

VERIF = os.path.dirname(os.path.dirname(os.path.abspath(__file__)))


def _sub(prop, tier, seed, start, count, reverse=False, hashseed='0'):
    env = dict(os.environ)
    env['PYTHONHASHSEED'] = hashseed
    env['VERIF_ALLOW_HASHSEED'] = '1'
    cmd = [sys.executable, '-c',
           f"import sys; sys.path.insert(0, {VERIF!r}); from sim.runner import main; sys.exit(main())",
           prop, '--tier', tier, '--seed', str(seed), '--digests', str(start), str(count)]
    if reverse:
        cmd.append('--reverse')
    out = subprocess.run(cmd, env=env, capture_output=True, text=True, cwd=VERIF, timeout=1800)
    if out.returncode != 0:
        raise RuntimeError(f"digest subprocess failed: {out.stderr[-2000:]}")
    return {int(k): v for k, v in json.loads(out.stdout.strip().splitlines()[-1]).items()}


def selftest(prop, tier, seed, n) -> int:
    from .runner import digests_of
    ok = True
    base = digests_of(prop, tier, seed, 0, n)            # one batch, in process
    harness = [i for i, v in base.items() if v[2]]
    if harness:
        print(f"SELFTEST {prop}: harness errors at indices {harness[:5]}: {base[harness[0]][2]}")
        ok = False
    with concurrent.futures.ThreadPoolExecutor(max_workers=16) as pool:
        # reversed batches in fresh interpreters, 4 shards
        shard = max(n // 4, 1)
        futs = [pool.submit(_sub, prop, tier, seed, s, min(shard, n - s), True) for s in range(0, n, shard)]
        # singles in fresh interpreters
        singles = list(range(0, n, max(n // 12, 1)))[:12]
        sfuts = {i: pool.submit(_sub, prop, tier, seed, i, 1) for i in singles}
        # another hash seed: verdicts must agree
        hfuts = [pool.submit(_sub, prop, tier, seed, s, min(shard, n - s), False, '1') for s in range(0, n, shard)]
        rev = {}
        for f in futs:
            rev.update(f.result())
        single = {}
        for i, f in sfuts.items():
            single.update(f.result())
        other = {}
        for f in hfuts:
            other.update(f.result())
    diff_rev = [i for i in base if base[i][0] != rev[i][0]]
    diff_single = [i for i in single if base[i][0] != single[i][0]]
    diff_verdict = [i for i in base if base[i][1] != other[i][1]]
    diff_digest_hash = [i for i in base if base[i][0] != other[i][0]]
    print(f"SELFTEST {prop}: plans={n} batch-vs-reversed-fresh diffs={len(diff_rev)} "
          f"batch-vs-single-fresh diffs={len(diff_single)}/{len(single)} "
          f"hashseed0-vs-1 digest diffs={len(diff_digest_hash)} verdict diffs={len(diff_verdict)}")
    if diff_rev or diff_single or diff_verdict:
        ok = False
        print("  differing indices:", (diff_rev or diff_single or diff_verdict)[:10])
    return 0 if ok else 3
