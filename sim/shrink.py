"""Delta-debugging minimiser over plans (lists first, then field simplification)."""
from __future__ import annotations

import copy


def _get(plan, path):
    cur = plan
    for p in path:
        cur = cur[p]
    return cur


def _set(plan, path, value):
    cur = plan
    for p in path[:-1]:
        cur = cur[p]
    cur[path[-1]] = value


def _list_paths(plan, prefix=()):
    """Yield paths of every list found in the plan (depth-first), lists of scalars last."""
    for k, v in (plan.items() if isinstance(plan, dict) else enumerate(plan)):
        if isinstance(k, str) and k.startswith('_'):
            continue
        if isinstance(v, list):
            yield prefix + (k,)
            for i, item in enumerate(v):
                if isinstance(item, (dict, list)):
                    yield from _list_paths(item, prefix + (k, i))
        elif isinstance(v, dict):
            yield from _list_paths(v, prefix + (k,))


def shrink(mod, plan, fails, budget_runs=200):
    """``fails(plan) -> violation | None``.  Returns (smaller plan, its violation)."""
    runs = [0]
    best = copy.deepcopy(plan)
    best_v = fails(best)
    runs[0] += 1
    if best_v is None:
        return plan, {'invariant': 'unreproducible', 'facts': {}}

    def attempt(candidate):
        if runs[0] >= budget_runs:
            return None
        runs[0] += 1
        candidate.pop('_key', None)
        return fails(candidate)

    protected = set(getattr(mod, 'SHRINK_PROTECT', ()))
    top_lists = getattr(mod, 'SHRINK_LISTS', None)

    changed = True
    rounds = 0
    while changed and runs[0] < budget_runs and rounds < 4:
        changed = False
        rounds += 1
        paths = [p for p in _list_paths(best)]
        if top_lists is not None:
            paths = [p for p in paths if p[0] in top_lists]
        for path in paths:
            try:
                lst = _get(best, path)
            except (KeyError, IndexError, TypeError):
                continue
            if not isinstance(lst, list) or path[-1] in protected:
                continue
            n = len(lst)
            chunk = max(n // 2, 1)
            while chunk >= 1 and n > 0 and runs[0] < budget_runs:
                i = 0
                removed_any = False
                while i < len(lst) and runs[0] < budget_runs:
                    cand = copy.deepcopy(best)
                    cl = _get(cand, path)
                    del cl[i:i + chunk]
                    v = attempt(cand)
                    if v is not None:
                        best, best_v = cand, v
                        lst = _get(best, path)
                        removed_any = True
                        changed = True
                    else:
                        i += chunk
                if chunk == 1:
                    break
                chunk = max(chunk // 2, 1) if not removed_any or chunk > 1 else 1
        # field simplification offered by the check
        simplify = getattr(mod, 'simplify', None)
        if simplify is not None:
            progress = True
            while progress and runs[0] < budget_runs:
                progress = False
                for cand in simplify(copy.deepcopy(best)):
                    if cand == best:
                        continue
                    v = attempt(cand)
                    if v is not None:
                        best, best_v = cand, v
                        progress = True
                        changed = True
                        break
        # generic network simplification
        net = best.get('net')
        if isinstance(net, dict):
            for key, val in (('jitter_ms', 0), ('segmentation', 'whole')):
                if net.get(key) not in (None, val) and runs[0] < budget_runs:
                    cand = copy.deepcopy(best)
                    cand['net'][key] = val
                    v = attempt(cand)
                    if v is not None:
                        best, best_v = cand, v
                        changed = True
    best.pop('_key', None)
    return best, best_v
