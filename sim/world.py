"""World scaffold: loop + net + disk + scripted server + real clients + recorder."""
from __future__ import annotations

import asyncio
import hashlib
import os
import time as _real_time
import warnings
from typing import Callable, Optional

from . import seams
from .disk import Disk, Sandbox
from .loop import NODE, SimBudget, SimCrash, SimLoop, SimStall
from .net import Host, Net, Tap
from .prf import Streams


class Violation(dict):
    """{'invariant': 'C12.missed', 'facts': {...}, 'at': t}"""


class Recorder:
    """Strongly referenced event-bus listener (the bus holds listeners weakly)."""

    def __init__(self, world: 'World', node: 'ClientNode'):
        self.world = world
        self.node = node
        self.events: list[tuple[float, int, object]] = []
        self.hooks: list[Callable] = []

    def attach(self, bus, priority: int = 1000):
        from aioslsk import events as ev

        def walk(cls):
            for sub in cls.__subclasses__():
                yield sub
                yield from walk(sub)
        for cls in walk(ev.Event):
            bus.register(cls, self.on_event, priority=priority)

    def on_event(self, event):
        loop = self.world.loop
        # only the kind is kept: holding on to event objects would keep users, items and connections alive that the
        # library itself only references weakly, and hide whatever depends on them going away
        self.events.append((loop.time(), loop.iterations, type(event).__name__))
        self.world.trace('ev', self.node.name, type(event).__name__, loop.iterations)
        for hook in self.hooks:
            hook(event)

    def of(self, cls):
        return [(t, it, e) for (t, it, e) in self.events if isinstance(e, cls)]


class ClientNode:
    def __init__(self, world: 'World', name: str, host: Host, settings, client):
        self.world = world
        self.name = name
        self.host = host
        self.settings = settings
        self.client = client
        self.recorder = Recorder(world, self)
        self.recorder.attach(client.events)

    def spawn(self, coro, name=None) -> asyncio.Task:
        return self.world.loop.spawn(self.host, coro, name=name)


class Call:
    """Record of one public-API call issued by the driver."""

    def __init__(self, world, label):
        self.world = world
        self.label = label
        self.invoked_at = None
        self.invoked_iter = None
        self.returned_at = None
        self.returned_iter = None
        self.result = None
        self.exception: Optional[BaseException] = None
        self.cancelled = False
        self.task: Optional[asyncio.Task] = None

    @property
    def done(self):
        return self.returned_at is not None

    def outcome(self):
        if not self.done:
            return 'pending'
        if self.cancelled:
            return 'cancelled'
        if self.exception is not None:
            return 'raised:' + type(self.exception).__name__
        return 'returned'


async def _grace(iterations: int = 12):
    for _ in range(iterations):
        await asyncio.sleep(0)


class World:

    def __init__(self, plan: dict, prop: str = 'X'):
        self.plan = plan
        self.prop = prop
        seed = plan.get('seed', 0)
        self.streams = Streams(seed)
        self.loop = SimLoop()
        seams.begin_run(self.loop, self.streams)
        self.net = Net(self.loop, self.streams, plan.get('net'))
        self.disk = Disk(self.loop, self.streams, plan.get('exec'))
        self._sandbox: Optional[Sandbox] = None
        self.clients: dict[str, ClientNode] = {}
        self.server = None
        self.peers: dict = {}
        self.violations: list[Violation] = []
        self.trace_events: list[tuple] = []
        self.probes: dict[str, int] = {}
        self.calls: list[Call] = []
        self.keep_alive: list = []
        self.closed = False
        caps = plan.get('caps', {})
        self.loop.max_iterations = caps.get('iterations', 400_000)
        self.loop.max_time = self.loop.time() + caps.get('vtime', 20_000.0)
        self.loop.wall_deadline = _real_time.monotonic() + caps.get('wall', 60.0)
        asyncio.set_event_loop(self.loop)

    # bookkeeping -----------------------------------------------------------
    @property
    def now(self) -> float:
        return self.loop.time()

    @property
    def sandbox(self) -> Sandbox:
        if self._sandbox is None:
            key = self.plan.get('_key') or hashlib.blake2b(
                repr(sorted(self.plan.items(), key=lambda kv: kv[0])).encode(), digest_size=8).hexdigest()
            self._sandbox = Sandbox(f"{self.prop}-{key}")
        return self._sandbox

    def trace(self, kind: str, *data):
        self.trace_events.append((round(self.loop.time(), 9), kind) + data)

    def probe(self, name: str, n: int = 1):
        self.probes[name] = self.probes.get(name, 0) + n

    def violate(self, invariant: str, **facts):
        v = Violation(invariant=invariant, facts=facts, at=round(self.loop.time(), 6))
        # keep one record per (invariant, facts) pair
        for old in self.violations:
            if old['invariant'] == invariant and old['facts'] == facts:
                return old
        self.violations.append(v)
        return v

    def digest(self) -> str:
        h = hashlib.blake2b(digest_size=16)
        root = self._sandbox.path if self._sandbox is not None else None
        for ev in self.trace_events:
            s = repr(ev)
            if root:
                s = s.replace(root, '$SB')
            h.update(s.encode('utf-8', 'backslashreplace'))
            h.update(b'\n')
        return h.hexdigest()

    # construction ------------------------------------------------------------
    def add_server(self, cfg=None):
        from .actors import SimServer
        self.server = SimServer(self.loop, self.net, cfg)
        self.server.start()
        return self.server

    def add_peer(self, name: str, **kw):
        from .actors import SimPeer
        peer = SimPeer(self.loop, self.net, self.server, name, **kw)
        self.peers[name] = peer
        peer.start()
        return peer

    def make_settings(self, name: str, overrides: Optional[dict] = None):
        from aioslsk.settings import Settings
        base = {
            'credentials': {'username': name, 'password': 'pw'},
            'network': {
                'server': {'hostname': 'server', 'port': 2416},
                'upnp': {'enabled': False},
                'listening': {'port': 60000, 'obfuscated_port': 60001},
            },
            'shares': {'scan_on_start': False, 'download': self.sandbox.sub(name, 'downloads')},
        }

        def merge(dst, src):
            for k, v in src.items():
                if isinstance(v, dict) and isinstance(dst.get(k), dict):
                    merge(dst[k], v)
                else:
                    dst[k] = v
        if overrides:
            merge(base, overrides)
        return Settings(**base)

    def add_client(self, name: str = 'alice', overrides: Optional[dict] = None,
                   transfer_cache=None, shares_cache=None, host: Optional[Host] = None) -> ClientNode:
        from aioslsk.client import SoulSeekClient
        settings = self.make_settings(name, overrides)
        if host is None:
            host = self.net.hosts.get(name) or self.net.add_host(name)
        client = SoulSeekClient(settings, transfer_cache=transfer_cache, shares_cache=shares_cache)
        node = ClientNode(self, name, host, settings, client)
        self.clients[name] = node
        return node

    # driving -------------------------------------------------------------------
    def call(self, node: ClientNode, label: str, coro_fn: Callable, *args, **kwargs) -> Call:
        """Issue ``coro_fn(*args)`` as its own task on the client's host."""
        call = Call(self, label)
        self.calls.append(call)

        async def runner():
            call.invoked_at = self.loop.time()
            call.invoked_iter = self.loop.iterations
            self.trace('invoke', label)
            try:
                call.result = await coro_fn(*args, **kwargs)
            except asyncio.CancelledError:
                call.cancelled = True
                self.trace('cancelled', label)
            except SimCrash:
                raise
            except BaseException as exc:  # noqa
                call.exception = exc
                self.trace('raise', label, type(exc).__name__)
            else:
                self.trace('return', label)
            call.returned_at = self.loop.time()
            call.returned_iter = self.loop.iterations

        call.task = node.spawn(runner(), name=f'driver-{label}')
        return call

    async def start_client(self, node: ClientNode, login: bool = True):
        async def boot():
            await node.client.start()
            if login:
                await node.client.login()
        call = self.call(node, f'boot-{node.name}', boot)
        await call.task
        return call

    def run(self, main_coro):
        """Run the scenario to completion; SimStall/SimBudget propagate as harness errors."""
        with warnings.catch_warnings():
            warnings.simplefilter('ignore')
            result = self.loop.run_until_complete(main_coro)
            # a few more iterations in the same instant: whoever awaits a task that ended in the very last iteration
            # gets to look at its result before unretrieved task exceptions are collected
            try:
                self.loop.run_until_complete(_grace())
            except (SimStall, SimBudget, RuntimeError):
                pass
            self.loop.scan_task_deaths()
            return result

    def settle(self, seconds: float):
        return asyncio.sleep(seconds)

    # teardown --------------------------------------------------------------------
    def close(self, abandon: bool = False):
        if self.closed:
            return
        self.closed = True
        loop = self.loop
        with warnings.catch_warnings():
            warnings.simplefilter('ignore')
            try:
                if not abandon and not loop.is_closed():
                    loop.monitors.clear()
                    loop.max_iterations = loop.iterations + 200_000
                    loop.max_time = float('inf')
                    pending = [t for t in asyncio.all_tasks(loop) if not t.done()]
                    for t in pending:
                        t.cancel()
                    if pending:
                        async def drain():
                            await asyncio.gather(*pending, return_exceptions=True)
                        try:
                            loop.run_until_complete(drain())
                        except (SimStall, SimBudget, RuntimeError):
                            pass
            finally:
                try:
                    loop.close()
                except Exception:
                    pass
                asyncio.set_event_loop(None)
                seams.end_run()
                if self._sandbox is not None:
                    self._sandbox.cleanup()


class FrameTap(Tap):
    """Decodes nothing by itself; keeps per-connection byte logs for oracles."""

    def __init__(self, world: World, keep_bytes: bool = True):
        self.world = world
        self.keep = keep_bytes
        self.delivered: dict[tuple[int, str], bytearray] = {}
        self.written: dict[tuple[int, str], bytearray] = {}

    def on_connect(self, conn):
        self.world.trace('net.connect', conn.label)

    def on_data(self, conn, direction, data):
        if self.keep:
            self.delivered.setdefault((conn.id, direction), bytearray()).extend(data)

    def on_write(self, conn, direction, data):
        if self.keep:
            self.written.setdefault((conn.id, direction), bytearray()).extend(data)

    def on_lost(self, conn, side, exc):
        self.world.trace('net.lost', conn.label, side, type(exc).__name__ if exc else None)
