"""Scripted peers speaking the transfer protocol (roles of DESIGN.md appendix D).

XferPeer wraps a SimPeer.  As *uploader* it owns files and serves them to the client under
test (which downloads); as *downloader* it fetches files the client shares.  Every step
is recorded; deviations from the honest script are per-file behaviour dicts (plan data).
"""
from __future__ import annotations

import asyncio
import struct
from typing import Optional

from aioslsk.protocol import messages as M

from .actors import PeerLink, SimPeer


class Upload:
    """Peer -> client (the client downloads)."""

    def __init__(self, filename, data):
        self.filename = filename
        self.data = data
        self.queue_requests: list[float] = []
        self.requests_sent: list[tuple[float, int]] = []     # (t, ticket)
        self.replies: list[tuple[float, object]] = []
        self.f_links: list[PeerLink] = []
        self.offsets: list[tuple[float, int]] = []
        self.bytes_sent = 0
        self.sent_total: list[int] = []       # bytes sent per attempt
        self.peer_closed: list[float] = []    # instants the client closed the file connection
        self.messages: list[tuple[float, object]] = []        # other frames naming the file
        self.finished = 0


class Download:
    """Client -> peer (the client uploads)."""

    def __init__(self, filename):
        self.filename = filename
        self.queued_at: list[float] = []
        self.requests: list[tuple[float, object]] = []        # PeerTransferRequest received
        self.replied: list[tuple[float, bool]] = []
        self.f_links: list[PeerLink] = []
        self.tickets: list[tuple[float, int]] = []
        self.offsets_sent: list[int] = []
        self.received = bytearray()
        self.attempt_bytes: list[int] = []
        self.ended: list[tuple[float, str]] = []              # (t, 'complete'|'eof'|'reset'|...)
        self.failed_msgs: list[tuple[float, object]] = []     # QueueFailed / UploadFailed
        self.complete_at: Optional[float] = None
        self.closed_at: list[float] = []                      # instants at which we (the peer) ended a file connection


class XferPeer:

    def __init__(self, world, name: str, pierce: bool = False, **kw):
        self.world = world
        self.loop = world.loop
        self.peer: SimPeer = world.add_peer(name, **kw)
        self.name = name
        self.pierce = pierce
        self.client_host = None          # set by attach()
        self.client_name = None
        self.uploads: dict[str, Upload] = {}
        self.downloads: dict[str, Download] = {}
        self.ul_beh: dict[str, dict] = {}
        self.dl_beh: dict[str, dict] = {}
        self.p_links: list[PeerLink] = []
        self.frames: list[tuple[float, str, object]] = []     # every P frame: (t, 'in', msg)
        self.sent: list[tuple[float, object]] = []
        self.pending_tickets: dict[int, str] = {}              # ticket -> filename (as downloader)
        self.ul_tickets: dict[int, str] = {}                   # ticket -> filename (as uploader)
        self._ticket = 7000 + 1000 * (sum(ord(c) for c in name) % 50)
        self.peer.accept_handler = self._on_accept
        self.peer.connect_to_peer_handler = self._on_relay
        self.silent = False              # do not answer anything (peer_silent)
        self.muted: set[str] = set()     # files the peer no longer speaks about
        self.unknown_f: list[PeerLink] = []

    def attach(self, client_node):
        self.client_host = client_node.host
        self.client_name = client_node.name

    # ------------------------------------------------------------------ plumbing
    def _next_ticket(self) -> int:
        self._ticket += 1
        return self._ticket

    def send(self, link: PeerLink, msg):
        self.sent.append((self.loop.time(), msg))
        link.send(msg)

    async def p_link(self) -> Optional[PeerLink]:
        """An open P link to the client (reuse or open a new direct one)."""
        for link in reversed(self.p_links):
            if link.is_open() and not link.eof and not link.writer.is_closing():
                return link
        try:
            link = await self.peer.connect_direct(self.client_host.ip, 60000, 'P', ticket=self._next_ticket())
        except OSError:
            return None
        self.p_links.append(link)
        self.peer.spawn(self._p_loop(link))
        return link

    async def _on_accept(self, link: PeerLink):
        init = await link.recv_init()
        if init is None or isinstance(init, tuple):
            return
        if isinstance(init, M.PeerPierceFirewall.Request):
            # answer to a ConnectToPeer we asked for: not used by these roles
            return
        if link.typ == 'P':
            self.p_links.append(link)
            await self._p_loop(link)
        elif link.typ == 'F':
            await self._f_accepted(link)
        else:
            while await link.recv('D') is not None:
                pass

    async def _on_relay(self, relay):
        if not self.pierce:
            return
        port, obf = (relay.port, False) if relay.port else (relay.obfuscated_port, True)
        try:
            link = await self.peer.connect_pierce(relay.ip, port, relay.ticket, relay.typ, obfuscated=obf)
        except OSError:
            return
        if relay.typ == 'P':
            self.p_links.append(link)
            await self._p_loop(link)
        elif relay.typ == 'F':
            await self._f_accepted(link)

    async def _p_loop(self, link: PeerLink):
        while True:
            msg = await link.recv('P')
            if msg is None:
                return
            self.frames.append((self.loop.time(), 'in', msg))
            if self.silent:
                continue
            try:
                await self._on_p_message(link, msg)
            except (ConnectionError, OSError):
                return

    async def _on_p_message(self, link: PeerLink, msg):
        filename = getattr(msg, 'filename', None)
        if filename is None and isinstance(msg, M.PeerTransferReply.Request):
            filename = self.ul_tickets.get(msg.ticket)
        if filename is not None and filename in self.muted:
            return
        if isinstance(msg, M.PeerTransferQueue.Request):
            await self._ul_on_queue(link, msg)
        elif isinstance(msg, M.PeerTransferReply.Request):
            await self._ul_on_reply(link, msg)
        elif isinstance(msg, M.PeerTransferRequest.Request):
            await self._dl_on_request(link, msg)
        elif isinstance(msg, M.PeerPlaceInQueueRequest.Request):
            ul = self.uploads.get(msg.filename)
            if ul is not None:
                ul.messages.append((self.loop.time(), msg))
                self.send(link, M.PeerPlaceInQueueReply.Request(msg.filename, 1))
        elif isinstance(msg, (M.PeerTransferQueueFailed.Request, M.PeerUploadFailed.Request)):
            dl = self.downloads.get(msg.filename)
            if dl is not None:
                dl.failed_msgs.append((self.loop.time(), msg))
            ul = self.uploads.get(msg.filename)
            if ul is not None:
                ul.messages.append((self.loop.time(), msg))

    # ------------------------------------------------------------------ uploader role
    def share(self, filename: str, data: bytes, **behaviour):
        self.uploads[filename] = Upload(filename, data)
        self.ul_beh[filename] = behaviour
        return self.uploads[filename]

    async def _ul_on_queue(self, link, msg):
        ul = self.uploads.get(msg.filename)
        if ul is None:
            self.send(link, M.PeerTransferQueueFailed.Request(msg.filename, 'File not shared.'))
            return
        ul.queue_requests.append(self.loop.time())
        beh = self.ul_beh.get(msg.filename, {})
        mode = beh.get('on_queue', 'start')
        if mode == 'silent':
            return
        if mode == 'failed':
            self.send(link, M.PeerTransferQueueFailed.Request(msg.filename, beh.get('reason', 'File not shared.')))
            return
        if mode == 'start_once' and ul.requests_sent:
            return
        self.peer.spawn(self.offer(msg.filename, delay=beh.get('queue_delay', 0.05)))

    async def offer(self, filename: str, delay: float = 0.0, ticket: Optional[int] = None):
        """Tell the client we are ready to upload ``filename`` (PeerTransferRequest)."""
        if delay:
            await asyncio.sleep(delay)
        ul = self.uploads[filename]
        beh = self.ul_beh.get(filename, {})
        if filename in self.muted:
            return
        link = await self.p_link()
        if link is None:
            return
        ticket = ticket or self._next_ticket()
        self.ul_tickets[ticket] = filename
        size = beh.get('announce_size', len(ul.data))
        ul.requests_sent.append((self.loop.time(), ticket))
        self.send(link, M.PeerTransferRequest.Request(1, ticket, filename, filesize=size))
        for _ in range(beh.get('dup_request', 0)):
            self.send(link, M.PeerTransferRequest.Request(1, ticket, filename, filesize=size))

    async def _ul_on_reply(self, link, msg):
        filename = self.ul_tickets.get(msg.ticket)
        if filename is None:
            return
        ul = self.uploads[filename]
        ul.replies.append((self.loop.time(), msg))
        if not msg.allowed:
            return
        beh = self.ul_beh.get(filename, {})
        if beh.get('no_file_connection'):
            return
        self.peer.spawn(self._ul_send_file(ul, beh, msg.ticket))

    async def _ul_send_file(self, ul: Upload, beh: dict, ticket: int):
        if beh.get('f_delay'):
            await asyncio.sleep(beh['f_delay'])
        if ul.filename in self.muted and not beh.get('f_under_way'):
            return
        try:
            flink = await self.peer.connect_direct(self.client_host.ip, 60000, 'F', ticket=0)
        except OSError:
            return
        per_attempt = beh.get('per_attempt') or []
        if len(ul.f_links) < len(per_attempt):
            beh = dict(beh, **per_attempt[len(ul.f_links)])      # deviations of this attempt only
        ul.f_links.append(flink)
        flink.send_raw(struct.pack('<I', beh.get('f_ticket', ticket)))
        raw = await flink.read_exactly(8)
        if raw is None:
            ul.sent_total.append(0)
            return
        (offset,) = struct.unpack('<Q', raw)
        ul.offsets.append((self.loop.time(), offset))
        data = ul.data[offset:]
        limit = beh.get('send_bytes')
        if limit is not None:
            data = data[:limit]
        data = data + beh.get('extra', b'')
        chunk = beh.get('chunk', 16384)
        sent = 0
        for pos in range(0, len(data), chunk):
            if not flink.is_open():
                break
            piece = data[pos:pos + chunk]
            flink.send_raw(piece)
            sent += len(piece)
            ul.bytes_sent += len(piece)
            try:
                await flink.writer.drain()
            except (ConnectionError, OSError):
                break
            if beh.get('chunk_delay'):
                await asyncio.sleep(beh['chunk_delay'])
        ul.sent_total.append(sent)
        after = beh.get('after_send', 'wait_close')
        if after == 'close':
            if beh.get('close_delay'):
                await asyncio.sleep(beh['close_delay'])
            flink.close()
            return
        if after == 'abort':
            flink.abort()
            return
        # honest: wait for the client to close the connection
        while True:
            more = await flink.read_some()
            if more is None:
                break
        ul.peer_closed.append(self.loop.time())
        ul.finished += 1
        flink.close()
        if beh.get('upload_failed_after') and sent < len(ul.data) - offset:
            link = await self.p_link()
            if link is not None:
                self.send(link, M.PeerUploadFailed.Request(ul.filename))

    # ------------------------------------------------------------------ downloader role
    def want(self, filename: str, **behaviour) -> Download:
        self.downloads[filename] = Download(filename)
        self.dl_beh[filename] = behaviour
        return self.downloads[filename]

    async def request_file(self, filename: str, via: str = 'queue'):
        """Ask the client for ``filename``: PeerTransferQueue (or a direct PeerTransferRequest)."""
        dl = self.downloads.get(filename) or self.want(filename)
        if dl.complete_at is not None:
            # asking again for a file we already have in full is a new download from byte 0
            dl.received = bytearray()
            dl.complete_at = None
        link = await self.p_link()
        if link is None or filename in self.muted:
            return
        dl.queued_at.append(self.loop.time())
        if via == 'queue':
            self.send(link, M.PeerTransferQueue.Request(filename))
        else:
            ticket = self._next_ticket()
            self.send(link, M.PeerTransferRequest.Request(0, ticket, filename))

    async def _dl_on_request(self, link, msg):
        if msg.direction != 1:
            return
        dl = self.downloads.get(msg.filename)
        if dl is None:
            dl = self.want(msg.filename)
        dl.requests.append((self.loop.time(), msg))
        beh = self.dl_beh.get(msg.filename, {})
        mode = beh.get('reply', 'allow')
        if mode == 'silent':
            return
        if beh.get('reply_delay'):
            await asyncio.sleep(beh['reply_delay'])
        if mode == 'refuse':
            dl.replied.append((self.loop.time(), False))
            self.send(link, M.PeerTransferReply.Request(msg.ticket, False, reason=beh.get('reason', 'Cancelled')))
            return
        self.pending_tickets[msg.ticket] = msg.filename
        dl.replied.append((self.loop.time(), True))
        self.send(link, M.PeerTransferReply.Request(beh.get('reply_ticket', msg.ticket), True))

    async def _f_accepted(self, flink: PeerLink):
        raw = await flink.read_exactly(4)
        if raw is None:
            return
        (ticket,) = struct.unpack('<I', raw)
        filename = self.pending_tickets.get(ticket)
        if filename is None:
            self.unknown_f.append(flink)
            flink.close()
            return
        dl = self.downloads[filename]
        beh = self.dl_beh.get(filename, {})
        dl.f_links.append(flink)
        dl.tickets.append((self.loop.time(), ticket))
        request = [m for (_, m) in dl.requests if m.ticket == ticket][-1]
        size = request.filesize or 0
        offset = beh.get('offset', 'auto')
        if offset == 'auto':
            offset = len(dl.received)
        dl.offsets_sent.append(offset)
        if beh.get('offset_delay'):
            await asyncio.sleep(beh['offset_delay'])
        flink.send_raw(struct.pack('<Q', offset))
        want = max(size - offset, 0)
        stop_after = beh.get('read_bytes')
        got = 0
        if offset < len(dl.received):
            del dl.received[offset:]
        while got < want:
            data = await flink.read_some(65536)
            if data is None:
                break
            dl.received.extend(data)
            got += len(data)
            if stop_after is not None and got >= stop_after:
                break
        dl.attempt_bytes.append(got)
        now = self.loop.time()
        if stop_after is not None and got >= stop_after and got < want:
            how = beh.get('stop_how', 'close')
            dl.ended.append((now, 'peer_' + how))
            if how == 'abort':
                dl.closed_at.append(now)
                flink.abort()
            elif how == 'stall':
                flink.writer.transport.pause_reading()
            else:
                dl.closed_at.append(now)
                flink.close()
            return
        if got >= want:
            dl.ended.append((now, 'complete'))
            dl.complete_at = now
            if beh.get('after_all', 'close') == 'close':
                if beh.get('close_delay'):
                    await asyncio.sleep(beh['close_delay'])
                dl.closed_at.append(self.loop.time())
                flink.close()
            else:
                # never close: keep reading until the client gives up
                while await flink.read_some() is not None:
                    pass
        else:
            dl.ended.append((now, 'reset' if flink.lost is not None else 'eof'))
            dl.closed_at.append(now)
            flink.close()


def pattern_bytes(n: int, salt: int = 0) -> bytes:
    """Position dependent content: any misplaced or duplicated byte is visible."""
    out = bytearray(n)
    x = (salt * 2654435761) & 0xFFFFFFFF
    for i in range(0, n, 4):
        v = (i // 4 * 2246822519 + x) & 0xFFFFFFFF
        out[i:i + 4] = v.to_bytes(4, 'little')[:min(4, n - i)]
    return bytes(out)


class WireTap:
    """Decodes what a client host *writes* on its peer connections (sender-side tap).

    aioslsk writes one frame (or one raw chunk) per ``writer.write`` call, so every write is
    decoded on its own: the first write of a connection the client opened is a peer-init
    frame; later writes are peer frames (P), distributed frames (D) or raw bytes (F).
    Obfuscated connections are decoded with the key the frame carries.
    """

    def __init__(self, world, client_name: str):
        from .net import Tap
        self.world = world
        self.client = client_name
        self.out: list[dict] = []          # {'t', 'conn', 'peer', 'typ', 'msg' | 'raw'}
        self.to_server: list[tuple[float, object]] = []   # (write time, decoded request)
        self.conn_typ: dict[int, str] = {}
        self.conn_writes: dict[int, int] = {}
        self.obf_ports = {60001, 50001}
        outer = self

        class _T(Tap):
            def on_write(self, conn, direction, data):
                outer._on_write(conn, direction, data)

            def on_data(self, conn, direction, data):
                outer._on_data(conn, direction, data)
        self.tap = _T()
        world.net.taps.append(self.tap)
        self._in_first: dict[int, bytearray] = {}

    def _peer_of(self, conn):
        return conn.dst.name if conn.src.name == self.client else conn.src.name

    def _on_data(self, conn, direction, data):
        # learn the type of connections the *peer* opened from its PeerInit
        if conn.dst.name != self.client or direction != 'c2s' or conn.id in self.conn_typ:
            return
        buf = self._in_first.setdefault(conn.id, bytearray())
        buf.extend(data)
        from aioslsk.protocol import obfuscation
        obf = conn.dst_addr[1] in self.obf_ports
        try:
            if obf:
                if len(buf) < 8:
                    return
                (length,) = struct.unpack('<I', obfuscation.decode(bytes(buf[:8])))
                if len(buf) < 8 + length:
                    return
                frame = obfuscation.decode(bytes(buf[:8 + length]))
            else:
                if len(buf) < 4:
                    return
                (length,) = struct.unpack('<I', bytes(buf[:4]))
                if len(buf) < 4 + length:
                    return
                frame = bytes(buf[:4 + length])
            msg = M.PeerInitializationMessage.deserialize_request(frame)
        except Exception:
            self.conn_typ[conn.id] = '?'
            return
        if isinstance(msg, M.PeerInit.Request):
            self.conn_typ[conn.id] = msg.typ
        else:
            self.conn_typ[conn.id] = 'pierce'

    def _on_write(self, conn, direction, data):
        if conn.dst.name == 'server' and conn.src.name == self.client and direction == 'c2s':
            try:
                self.to_server.append((self.world.loop.time(), M.ServerMessage.deserialize_request(data)))
            except Exception:
                pass
            return
        if conn.dst.name == 'server' or conn.src.name == 'server':
            return
        mine = (conn.src.name == self.client and direction == 'c2s') or \
               (conn.dst.name == self.client and direction == 's2c')
        if not mine:
            return
        from aioslsk.protocol import obfuscation
        n = self.conn_writes.get(conn.id, 0)
        self.conn_writes[conn.id] = n + 1
        rec = {'t': self.world.loop.time(), 'conn': conn.id, 'peer': self._peer_of(conn), 'label': conn.label}
        obf_port = conn.dst_addr[1] in self.obf_ports
        typ = self.conn_typ.get(conn.id)
        try:
            if conn.src.name == self.client and n == 0:
                frame = obfuscation.decode(data) if obf_port else data
                msg = M.PeerInitializationMessage.deserialize_request(frame)
                if isinstance(msg, M.PeerInit.Request):
                    self.conn_typ[conn.id] = msg.typ
                rec.update(typ='init', msg=msg)
            elif typ == 'F':
                rec.update(typ='F', raw=bytes(data))
            elif typ == 'D':
                rec.update(typ='D', msg=M.DistributedMessage.deserialize_request(data))
            elif typ in ('P',):
                frame = obfuscation.decode(data) if obf_port else data
                rec.update(typ='P', msg=M.PeerMessage.deserialize_request(frame))
            else:
                # type not known yet (e.g. our pierce answer): try peer frame, else raw
                try:
                    frame = obfuscation.decode(data) if obf_port else data
                    rec.update(typ='P?', msg=M.PeerMessage.deserialize_request(frame))
                except Exception:
                    rec.update(typ='raw', raw=bytes(data))
        except Exception as exc:
            rec.update(typ='undecodable', raw=bytes(data), error=type(exc).__name__)
        self.out.append(rec)

    def frames(self, cls=None, peer=None, since: float = 0.0):
        out = []
        for rec in self.out:
            if rec['t'] < since or 'msg' not in rec:
                continue
            if cls is not None and not isinstance(rec['msg'], cls):
                continue
            if peer is not None and rec['peer'] != peer:
                continue
            out.append(rec)
        return out


class FileConnWatch:
    """Finds file (F) connections between simulated hosts from the sender-side writes and tells
    where the file bytes start, so that faults can be placed at an exact *file* byte.

    Direct F connection (uploader connects):   uploader writes PeerInit(F) frame, then the 4-byte
    ticket, then file data; the downloader writes the 8-byte offset.
    Pierced F connection (downloader connects): downloader writes PeerPierceFirewall, then the
    offset; the uploader writes the ticket, then file data.
    """

    def __init__(self, world, uploader: str, downloader: str):
        from .net import Tap
        self.world = world
        self.uploader = uploader
        self.downloader = downloader
        self.fconns: list[dict] = []        # {'conn', 'dir' (data direction), 'header', 'opened_at', 'offset', 'sent', 'delivered'}
        self.on_file_conn = None            # callback(rec) when the data start is known
        self._state: dict[int, dict] = {}
        outer = self

        class _T(Tap):
            def on_write(self, conn, direction, data):
                outer._on_write(conn, direction, data)

            def on_data(self, conn, direction, data):
                outer._on_data(conn, direction, data)
        world.net.taps.append(_T())

    def _on_write(self, conn, direction, data):
        names = {conn.src.name, conn.dst.name}
        if names != {self.uploader, self.downloader}:
            return
        st = self._state.setdefault(conn.id, {'writes': {'c2s': [], 's2c': []}, 'rec': None, 'kind': None})
        writer = conn.src.name if direction == 'c2s' else conn.dst.name
        st['writes'][direction].append(len(data))
        if st['kind'] is None and direction == 'c2s' and len(st['writes']['c2s']) == 1:
            # first write of the opener: init family, clear or obfuscated
            try:
                frame = data
                if conn.dst_addr[1] in (60001, 50001):
                    from aioslsk.protocol import obfuscation
                    frame = obfuscation.decode(data)
                msg = M.PeerInitializationMessage.deserialize_request(frame)
            except Exception:
                st['kind'] = 'other'
                return
            if isinstance(msg, M.PeerInit.Request):
                st['kind'] = 'direct-' + msg.typ
            else:
                st['kind'] = 'pierce'
            return
        if st['kind'] == 'direct-F' and writer == self.uploader and st['rec'] is None:
            if direction == 'c2s' and len(st['writes']['c2s']) == 2:
                header = sum(st['writes']['c2s'])
                st['rec'] = self._new(conn, 'c2s', header)
            return
        if st['kind'] == 'pierce' and writer == self.uploader and st['rec'] is None and direction == 's2c':
            if len(data) == 4 and len(st['writes']['s2c']) == 1:
                st['rec'] = self._new(conn, 's2c', 4)
            else:
                st['kind'] = 'pierce-other'
            return
        rec = st['rec']
        if rec is not None:
            if writer == self.uploader and direction == rec['dir']:
                rec['sent'] += len(data)
            elif writer == self.downloader and rec['offset'] is None and len(data) == 8:
                rec['offset'] = struct.unpack('<Q', data)[0]
                rec['offset_at'] = self.world.loop.time()

    def _new(self, conn, direction, header):
        rec = {'conn': conn, 'dir': direction, 'header': header, 'opened_at': self.world.loop.time(),
               'offset': None, 'sent': 0, 'delivered': 0, 'n': len(self.fconns)}
        self.fconns.append(rec)
        if self.on_file_conn is not None:
            self.on_file_conn(rec)
        return rec

    def _on_data(self, conn, direction, data):
        st = self._state.get(conn.id)
        if st is None or st['rec'] is None:
            return
        rec = st['rec']
        if direction == rec['dir']:
            pipe = conn.pipe(direction)
            rec['delivered'] = max(pipe.delivered - rec['header'], 0)
