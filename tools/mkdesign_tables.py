#!/venv/bin/python
"""Regenerates the tables of DESIGN.md section 8 that are derived from files:
   8.3 (fixed defects) from known_findings.json + git log of /repo, 8.6 (seeded changes) from seeded/*/meta.json.
   The regions are delimited by <!-- BEGIN x --> / <!-- END x --> markers."""
import glob, json, os, re, subprocess, sys

VERIF = os.path.dirname(os.path.dirname(os.path.abspath(__file__)))


def fixed_table():
    k = json.load(open(os.path.join(VERIF, 'known_findings.json')))
    rows = []
    for line in k['fixed']:
        m = re.match(r'fixed: property=(C\d+) ([0-9a-f]{7,}) (.*)', line, re.S)
        if not m:
            continue
        prop, commit, what = m.groups()
        try:
            subj = subprocess.check_output(['git', '-C', '/repo', 'log', '-1', '--format=%s', commit], text=True).strip()
        except subprocess.CalledProcessError:
            subj = '(commit not found)'
        subj = re.sub(r'^fix:\s*', '', subj)
        rows.append((prop, commit, subj, what.replace('|', '/').replace('\n', ' ')))
    rows.sort(key=lambda r: (r[0], r[1]))
    out = ['| property | /repo commit | repair (commit subject) | what failed (invariant / facts, corpus file) |', '|---|---|---|---|']
    out += ['| %s | %s | %s | %s |' % r for r in rows]
    return '\n'.join(out)


def seeded_table():
    out = ['| change | what it changes | what it needs to manifest | suite with change | caught by (quick tier, first violation) |',
           '|---|---|---|---|---|']
    for d in sorted(glob.glob(os.path.join(VERIF, 'seeded', '*'))):
        try:
            m = json.load(open(os.path.join(d, 'meta.json')))
        except (OSError, ValueError):
            continue
        v = m.get('verified_by_me', {})
        name = os.path.basename(d)
        caught = 'NOT caught' if not v.get('check_detects') else ''
        if v.get('check_detects'):
            mm = re.search(r'invariant=(\S+)', v.get('check_output', ''))
            caught = 'yes' + (': ' + mm.group(1) if mm else '')
        if v.get('note'):
            caught += ' (' + v['note'] + ')'
        def cell(s, n=260):
            s = ' '.join(str(s).split()).replace('|', '/')
            return s if len(s) <= n else s[:n - 3] + '...'
        out.append('| %s | %s | %s | %s | %s |' % (name, cell(m.get('summary', '')), cell(m.get('needs', '')),
                                                  cell(v.get('suite_with_change', ''), 60), cell(caught, 300)))
    return '\n'.join(out)


def main():
    path = os.path.join(VERIF, 'DESIGN.md')
    s = open(path).read()
    for name, fn in (('fixed-table', fixed_table), ('seeded-table', seeded_table)):
        b, e = f'<!-- BEGIN {name} -->', f'<!-- END {name} -->'
        if b not in s or e not in s:
            print('marker missing:', name)
            continue
        i, j = s.index(b) + len(b), s.index(e)
        s = s[:i] + '\n' + fn() + '\n' + s[j:]
    open(path, 'w').write(s)


if __name__ == '__main__':
    main()
