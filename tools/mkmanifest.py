import json, os, sys
VERIF = os.path.dirname(os.path.dirname(os.path.abspath(__file__)))
sys.path.insert(0, VERIF)
from checks.registry import CHECKS, NOT_APPLICABLE, PENDING_REASON
props = [json.loads(l)['id'] for l in open(os.path.join(VERIF, 'properties.jsonl'))]
fixes = []
import subprocess
log = subprocess.run(['git', '-C', '/repo', 'log', '--format=%h %s'], capture_output=True, text=True).stdout.splitlines()
m = {
    'version': 1,
    'setup_cmd': 'cd /verif && bin/check C12 --selftest 24',
    'hooks': {
        'guard': 'AIOSLSK_VERIF',
        'enable': 'no source hooks are needed: every seam (loop, sockets, clock, executor, key source, hash order, gc) is outside /repo (DESIGN.md 2.4); checks import aioslsk from /repo/src (or $VERIF_REPO/src)',
        'baseline_off_cmd': 'cd /repo && /venv/bin/python -m pytest -q -p no:cacheprovider --timeout=900',
        'source_commits': [],
        'add_only': True,
    },
    'engines': [{
        'name': 'aioslsk-sim', 'path': 'sim/', 'serves_properties': sorted(CHECKS),
        'kind_free_text': 'deterministic simulation: virtual-time asyncio event loop, in-memory TCP with fault injection, inline executor, scripted SoulSeek server/peers, seeded plan search with delta-debugging minimiser and replay files',
    }],
    'checks': [],
    'not_applicable': [],
    'notes': 'bin/check <ID> --tier quick|thorough [--seed N]; --replay FILE replays a minimised plan; --selftest N proves determinism (same plan in batch, reversed batch in fresh interpreters, single fresh interpreters, other PYTHONHASHSEED). Genuine defects repaired in /repo as fix: commits are listed in known_findings.json.',
}
for p in props:
    if p in CHECKS:
        c = CHECKS[p]
        m['checks'].append({
            'property_id': p,
            'quick_cmd': f'bin/check {p} --tier quick',
            'thorough_cmd': f'bin/check {p} --tier thorough',
            'evidence_file': f'/verif/evidence/{p}.json',
            'replay_cmd_template': f'bin/check {p} --replay {{path}}',
            'engine': 'aioslsk-sim',
            'level_claimed': {'category': c['category'], 'text': c['text'], 'design_ref': c['design_ref']},
            'level_note': c['note'],
            'technique': c['technique'],
        })
    else:
        m['not_applicable'].append({'property_id': p, 'reason': NOT_APPLICABLE.get(p, PENDING_REASON)})
json.dump(m, open(os.path.join(VERIF, 'MANIFEST.json'), 'w'), indent=1)
print('checks:', [c['property_id'] for c in m['checks']])
