#!/bin/sh
# Re-runs every kept seeded change against the CURRENT checks and the CURRENT /repo tree:
# scratch copy of /repo/src + patch (with fuzz), VERIF_REPO=<copy> bin/check <property> --tier quick --budget B.
# usage: tools/seedall.sh [budget] [pattern]      prints one line per change: <id> detected|MISSED|PATCH-FAILED
BUD=${1:-25}; PAT=${2:-}
for d in /verif/seeded/*$PAT*/; do
  id=$(basename $d); prop=${id%-*}
  SC=/dev/shm/seedall-$id; rm -rf $SC; mkdir -p $SC; cp -r /repo/src $SC/
  if ! (cd $SC && patch -p1 -s --no-backup-if-mismatch < $d/patch.diff >/dev/null 2>&1); then echo "$id PATCH-FAILED"; rm -rf $SC; continue; fi
  out=$(cd /verif && VERIF_REPO=$SC bin/check $prop --tier quick --budget $BUD --no-evidence --no-shrink 2>&1)
  if echo "$out" | grep -q "^VIOLATION"; then echo "$id detected $(echo "$out" | grep -m1 '  invariant=' | cut -c1-160)"; else echo "$id MISSED"; fi
  rm -rf $SC
done
