#!/bin/sh
# usage: tools/seedcheck.sh <worktree> <k> <PROPERTY> [budget]
# verifies an independently written breaking change and runs the property's check against it
WT=$1; K=$2; PROP=$3; BUD=${4:-30}
SRC=$WT/seeded/$K
SC=/dev/shm/seedchk-$PROP-$K
rm -rf $SC; mkdir -p $SC; cp -r /repo/src /repo/tests /repo/pyproject.toml $SC/
cd $SC && patch -p1 -s < $SRC/patch.diff || { echo "PATCH-FAILED"; exit 2; }
DEMO=$(ls $SRC/demo*.py | head -1)
echo "== suite with change"
PYTHONPATH=$SC/src unshare -n sh -c "ip link set lo up; cd $SC && /venv/bin/python -m pytest -q -p no:cacheprovider --timeout=900 tests 2>&1 | tail -1"
echo "== demo with change"
PYTHONPATH=$SC/src unshare -n sh -c "ip link set lo up; cd $SC && /venv/bin/python -m pytest -q -p no:cacheprovider $DEMO 2>&1 | tail -1"
echo "== demo without change"
PYTHONPATH=/repo/src unshare -n sh -c "ip link set lo up; cd /repo && /venv/bin/python -m pytest -q -p no:cacheprovider $DEMO 2>&1 | tail -1"
echo "== check $PROP against the change"
cd /verif && VERIF_REPO=$SC bin/check $PROP --tier quick --budget $BUD --no-evidence 2>&1 | grep -E "^VIOLATION|^  invariant|^HARNESS|^$PROP " | cut -c1-300 | head -8
echo "exit=$?"
rm -rf $SC
