#!/venv/bin/python
"""usage: tools/seedkeep.py <worktree> <k> <PROPERTY> [budget] [extra check ids...]
Runs tools/seedcheck.sh, and keeps the change under /verif/seeded/<PROPERTY>-<k>/ (patch.diff, demo, meta.json
extended with what was run and what came out)."""
import json, os, re, shutil, subprocess, sys
wt, k, prop = sys.argv[1], sys.argv[2], sys.argv[3]
budget = sys.argv[4] if len(sys.argv) > 4 else '30'
out = subprocess.run(['/verif/tools/seedcheck.sh', wt, k, prop, budget], capture_output=True, text=True).stdout
print(out[-1800:])
src = f'{wt}/seeded/{k}'
dst = f'/verif/seeded/{prop}-{int(k) + int(os.environ.get("SEED_OFFSET", "0"))}'
os.makedirs(dst, exist_ok=True)
old_note = None
try:
    old_note = json.load(open(os.path.join(dst, 'meta.json'))).get('verified_by_me', {}).get('note')
except (OSError, ValueError):
    pass
for name in os.listdir(src):
    if name.startswith(('patch', 'demo', 'meta')):
        shutil.copy(os.path.join(src, name), dst)
sections = re.split(r'^== ', out, flags=re.M)
res = {}
for s in sections[1:]:
    head, _, body = s.partition('\n')
    res[head.strip()] = body.strip()
meta = json.load(open(os.path.join(dst, 'meta.json')))
suite = res.get('suite with change', '')
check = res.get(f'check {prop} against the change', '')
detected = 'VIOLATION' in check
meta['verified_by_me'] = {
    'commands': f'tools/seedcheck.sh {wt} {k} {prop} {budget}  (scratch copy of /repo + patch; suite in unshare -n; demo with and without; VERIF_REPO=<copy> bin/check {prop} --tier quick --budget {budget})',
    'suite_with_change': suite, 'demo_with_change': res.get('demo with change', ''),
    'demo_without_change': res.get('demo without change', ''),
    'check_detects': detected,
    'check_output': check[:1500],
}
if old_note:
    meta['verified_by_me']['note'] = old_note
json.dump(meta, open(os.path.join(dst, 'meta.json'), 'w'), indent=1)
ok = ('782 passed' in suite) and ('failed' in res.get('demo with change', '')) and ('failed' not in res.get('demo without change', ''))
print('KEPT', dst, 'valid=', ok, 'detected=', detected)
