#!/bin/sh
# soak: every registered check, several seeds, medium budget, few workers (background use via vp run)
# usage: tools/soak.sh "1 2 3" 120 4 [C12 C15 ...]
SEEDS="${1:-1 2 3}"; BUDGET="${2:-120}"; WORKERS="${3:-4}"; shift 3 2>/dev/null
CHECKS="$*"
[ -z "$CHECKS" ] && CHECKS=$(/venv/bin/python -c "import json;print(' '.join(c['property_id'] for c in json.load(open('MANIFEST.json'))['checks']))")
for c in $CHECKS; do for s in $SEEDS; do
  out=$(bin/check $c --tier quick --seed $s --budget $BUDGET --workers $WORKERS --no-evidence 2>&1)
  echo "$out" | grep -E "^VIOLATION|^  invariant|^HARNESS|^$c " | cut -c1-300
done; done
