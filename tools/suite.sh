#!/bin/sh
# runs the repository's own suite on /repo's working tree and prints the summary line
cd /repo && timeout 1200 /venv/bin/python -m pytest -q -p no:cacheprovider --timeout=900 2>&1 | grep -E "passed|failed|^FAILED|^ERROR" | tail -12
