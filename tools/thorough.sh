#!/bin/sh
# one pass of the thorough tier over all (or the given) checks; prints the summary lines
# usage: tools/thorough.sh [budget_s] [workers] [C12 C15 ...]
BUD=${1:-600}; W=${2:-16}; shift 2 2>/dev/null
CHECKS="$*"
[ -z "$CHECKS" ] && CHECKS=$(/venv/bin/python -c "import json;print(' '.join(c['property_id'] for c in json.load(open('MANIFEST.json'))['checks']))")
for c in $CHECKS; do
  out=$(bin/check $c --tier thorough --budget $BUD --workers $W --no-evidence 2>&1)
  echo "$out" | grep -E "^VIOLATION|^  invariant|^HARNESS|^$c " | cut -c1-300
done
